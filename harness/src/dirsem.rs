//! Directive-level semantics reachable without the pass loops: what `.org`, `.cseg/.dseg/.eseg`
//! and `.byte` do to the segment list of the parse context (C02 / C06 clauses that live in
//! `Directive::parse`, directive.rs:162-211).
use crate::roles::*;
use crate::src::Src;
use crate::{chk, cov};
use avra_lib::context::{CommonContext, Context};
use avra_lib::directive::{Directive, DirectiveOps, Operand};
use avra_lib::expr::Expr;
use avra_lib::parser::{CodePoint, Item, ParseContext, SegmentType};
use core::mem::ManuallyDrop;

fn fresh() -> ParseContext {
    ParseContext::new(
        std::path::PathBuf::new(),
        std::cell::RefCell::new(avra_lib::vmap::BTreeSet::new()),
        CommonContext::new(),
    )
}

fn seg_type(i: u8) -> SegmentType {
    match i {
        0 => SegmentType::Code,
        1 => SegmentType::Data,
        _ => SegmentType::Eeprom,
    }
}

/// `.org <expr>` after a segment of kind `t0` that is empty or not (symbolic):
/// the operand is a literal (spelling 0) or a symbol bound by `.equ` (spelling 1).
/// Afterwards the *last* segment has the kind `t0`, is empty and starts at the value; a new
/// segment was opened iff the previous one already held an item.
pub fn dir_org<S: Src>(s: &mut S, spelling: u8) {
    // kind of the current segment and whether it already holds an item: chosen symbolically,
    // explored on concrete paths (a symbolic choice merges two different segment lists on the heap)
    let shape = s.below(6);
    crate::split!(shape, 0, 6, |sh| dir_org_shape(s, spelling, sh % 3, sh >= 3));
}

fn dir_org_shape<S: Src>(s: &mut S, spelling: u8, t0: u8, nonempty: bool) {
    s.role(H_C02_STEP, 50 + spelling as u32);
    let v = s.u32();
    s.assume(v <= 0x3f_ffff);
    let ctx = fresh();
    ctx.last_segment().unwrap().borrow_mut().t = seg_type(t0);
    if nonempty {
        ctx.push_to_last((CodePoint { line_num: 1, num: 2 }, Item::ReserveData(0)));
    }
    if spelling == 1 {
        let _ = ctx.common_context.set_equ(String::from("n"), Expr::Const(v as i64));
    }
    let operand = if spelling == 0 { Expr::Const(v as i64) } else { Expr::Ident(String::from("n")) };
    let mut arr = ManuallyDrop::new([Operand::E(operand)]);
    let opts = ManuallyDrop::new(DirectiveOps::OpList(unsafe { Vec::from_raw_parts(arr.as_mut_ptr(), 1, 1) }));
    let r = Directive::Org.parse(&opts, &ctx, CodePoint { line_num: 2, num: 2 });
    cov!(r.is_ok(), "!.org accepted");
    let n_segments = ctx.segments.borrow().len();
    let last = ctx.last_segment().unwrap();
    let (addr, t, empty) = {
        let b = last.borrow();
        (b.address, b.t, b.is_empty())
    };
    #[cfg(not(kani))]
    {
        s.note("value", v as i64);
        s.note("spelling", spelling as i64);
        s.note("nonempty", nonempty as i64);
        s.note_s("result", &format!("ok={} segments={} last.address={} last.empty={}", r.is_ok(), n_segments, addr, empty));
        let src = if spelling == 0 { format!(".org {}\nnop\n", v) } else { format!(".equ n = {}\n.org n\nnop\n", v) };
        {
            match avra_lib::builder::build_str(&src) {
                Ok(b) => {
                    println!("NOTE: api_source={:?} code_len={}", src, b.code.len());
                    if b.code.len() != 2 * (v as usize + 1) { println!("API-CONFIRMED") } else { println!("API-NOT-CONFIRMED") }
                }
                Err(e) => println!("NOTE: api_source={:?} Err({})", src, e),
            }
        }
    }
    chk!(s, r.is_ok(), "C02: .org with a constant operand was rejected");
    chk!(s, addr == v, "C02: .org N does not make the next item start at N");
    chk!(s, empty && t == seg_type(t0), "C02: .org must continue in a fresh segment of the same kind");
    chk!(s, n_segments == if nonempty { 2 } else { 1 }, "C02: .org opened / did not open a segment");
    core::mem::forget(r);
    core::mem::forget(last);
    core::mem::forget(ctx);
}

/// `.cseg / .dseg / .eseg` after a segment of kind `t0` that is empty or not: afterwards the
/// last segment has the new kind and is empty; an earlier non-empty segment is untouched.
pub fn dir_segment<S: Src>(s: &mut S) {
    let shape = s.below(18);
    crate::split!(shape, 0, 18, |sh| dir_segment_shape(s, sh % 3, (sh / 3) % 3, sh >= 9));
}

fn dir_segment_shape<S: Src>(s: &mut S, t0: u8, t1: u8, nonempty: bool) {
    s.role(H_C02_STEP, 60);
    let ctx = fresh();
    ctx.last_segment().unwrap().borrow_mut().t = seg_type(t0);
    if nonempty {
        ctx.push_to_last((CodePoint { line_num: 1, num: 2 }, Item::ReserveData(0)));
    }
    let d = match t1 {
        0 => Directive::CSeg,
        1 => Directive::DSeg,
        _ => Directive::ESeg,
    };
    let opts = ManuallyDrop::new(DirectiveOps::OpList(Vec::new()));
    let r = d.parse(&opts, &ctx, CodePoint { line_num: 2, num: 2 });
    cov!(r.is_ok(), "!segment directive accepted");
    let n_segments = ctx.segments.borrow().len();
    let last = ctx.last_segment().unwrap();
    let (t, empty, addr) = {
        let b = last.borrow();
        (b.t, b.is_empty(), b.address)
    };
    let first_t = ctx.segments.borrow()[0].borrow().t;
    #[cfg(not(kani))]
    {
        // public API: the same two directives with one item after each (if the first segment is
        // non-empty), images compared with what the directives mean
        let dir = [".cseg\n", ".dseg\n", ".eseg\n"];
        let item = ["ser r16\n", ".byte 1\n", ".db 0xa5\n"];
        let mut src = String::from(dir[t0 as usize]);
        let mut code: Vec<u8> = vec![];
        let mut ee: Vec<u8> = vec![];
        let mut ram = 0u32;
        let mut put = |t: u8, src: &mut String| {
            src.push_str(item[t as usize]);
            match t {
                0 => code.extend([0x0f, 0xef]),
                1 => ram += 1,
                _ => ee.push(0xa5),
            }
        };
        if nonempty {
            put(t0, &mut src);
        }
        src.push_str(dir[t1 as usize]);
        put(t1, &mut src);
        match avra_lib::builder::build_str(&src) {
            Ok(b) => {
                println!("NOTE: api_source={:?} code={:02x?} eeprom={:02x?} ram_filling={}", src, b.code, b.eeprom, b.ram_filling);
                if b.code != code || b.eeprom != ee || b.ram_filling != ram { println!("API-CONFIRMED") } else { println!("API-NOT-CONFIRMED") }
            }
            Err(e) => {
                println!("NOTE: api_source={:?} Err({})", src, e);
                println!("API-CONFIRMED");
            }
        }
    }
    chk!(s, r.is_ok(), "C02: segment directive rejected");
    chk!(s, t == seg_type(t1) && empty && addr == 0, "C02: segment directive must leave an empty segment of the named kind");
    chk!(s, n_segments == if nonempty { 2 } else { 1 }, "C02: segment directive opened / did not open a segment");
    if nonempty {
        chk!(s, first_t == seg_type(t0), "C02: segment directive retyped a segment that already holds items");
    }
    core::mem::forget(r);
    core::mem::forget(last);
    core::mem::forget(ctx);
    core::mem::forget(d);
}

/// `.byte <expr>`: literal (spelling 0) or `.equ` symbol (spelling 1) — the reservation of that
/// many bytes must be recorded in the current segment.
pub fn dir_byte<S: Src>(s: &mut S, spelling: u8) {
    s.role(H_C06_DATA, 100 + spelling as u32);
    let v = s.u16();
    let ctx = fresh();
    ctx.last_segment().unwrap().borrow_mut().t = SegmentType::Data;
    if spelling == 1 {
        let _ = ctx.common_context.set_equ(String::from("n"), Expr::Const(v as i64));
    }
    let operand = if spelling == 0 { Expr::Const(v as i64) } else { Expr::Ident(String::from("n")) };
    let mut arr = ManuallyDrop::new([Operand::E(operand)]);
    let opts = ManuallyDrop::new(DirectiveOps::OpList(unsafe { Vec::from_raw_parts(arr.as_mut_ptr(), 1, 1) }));
    let r = Directive::Byte.parse(&opts, &ctx, CodePoint { line_num: 1, num: 2 });
    cov!(r.is_ok(), "!.byte accepted");
    let last = ctx.last_segment().unwrap();
    let recorded: Option<i64> = {
        let b = last.borrow();
        if b.items.len() == 1 {
            match &b.items[0].1 {
                Item::ReserveData(n) => Some(*n),
                _ => None,
            }
        } else {
            None
        }
    };
    #[cfg(not(kani))]
    {
        s.note("value", v as i64);
        s.note("spelling", spelling as i64);
        s.note_s("recorded", &format!("{:?}", recorded));
        let src = if spelling == 0 { format!(".dseg\n.byte {}\n", v) } else { format!(".equ n = {}\n.dseg\n.byte n\n", v) };
        match avra_lib::builder::build_str(&src) {
            Ok(b) => {
                println!("NOTE: api_source={:?} ram_filling={}", src, b.ram_filling);
                if b.ram_filling != v as u32 { println!("API-CONFIRMED") } else { println!("API-NOT-CONFIRMED") }
            }
            Err(e) => println!("NOTE: api_source={:?} Err({})", src, e),
        }
    }
    chk!(s, r.is_ok(), "C06: .byte with a constant operand was rejected");
    // `.byte 0` reserves nothing either way: recording it or not is unobservable
    chk!(s, recorded == Some(v as i64) || (v == 0 && recorded.is_none()), "C06: .byte n did not reserve n bytes");
    core::mem::forget(r);
    core::mem::forget(last);
    core::mem::forget(ctx);
}
