//! C08 (attempt): `parser::parse_iter` + private `skip` + the conditional arms of
//! `Directive::parse` on every sequence of n conditional / payload lines, with the text grammar
//! (`document::line`) replaced by a lookup from a one-letter line code to a prebuilt `Document`.
//!
//! line codes:  "i0" `.if 0`   "i1" `.if 1`   "e0" `.elif 0`   "e1" `.elif 1`   "l" `.else`
//!              "n" `.endif`   "pa".."pf"  payload = a label named after its position
use crate::roles::*;
use crate::src::Src;
use crate::{chk, cov};
use avra_lib::context::CommonContext;
use avra_lib::directive::{Directive, DirectiveOps, Operand};
use avra_lib::document::Document;
use avra_lib::expr::Expr;
use avra_lib::parser::{parse_iter, Item, ParseContext};

pub type LineError = peg::error::ParseError<peg::str::LineCol>;

fn dir_line(d: Directive, cond: Option<i64>) -> Document {
    let ops = match cond {
        Some(v) => vec![Operand::E(Expr::Const(v))],
        None => vec![],
    };
    Document::DirectiveLine(Box::new(None), d, DirectiveOps::OpList(ops))
}

/// condition values of the fixed-shape harnesses, indexed by line position (set by the harness;
/// the line *text* stays concrete so that the class of every line is a constant for CBMC)
pub static mut CONDS: [u8; 8] = [0; 8];

/// Stub for the generated `document::document::line` (Kani only).
/// "i0"/"i1"/"e0"/"e1": condition in the text; "I<pos>"/"E<pos>": condition in CONDS[pos].
pub fn line_stub(input: &str) -> Result<Document, LineError> {
    let b = input.as_bytes();
    let c0 = if b.len() > 0 { b[0] } else { 0 };
    let c1 = if b.len() > 1 { b[1] } else { 0 };
    Ok(match c0 {
        b'i' => dir_line(Directive::If, Some((c1 == b'1') as i64)),
        b'e' => dir_line(Directive::ElIf, Some((c1 == b'1') as i64)),
        b'I' => dir_line(Directive::If, Some(unsafe { CONDS[(c1 - b'0') as usize & 7] } as i64)),
        b'E' => dir_line(Directive::ElIf, Some(unsafe { CONDS[(c1 - b'0') as usize & 7] } as i64)),
        b'l' => dir_line(Directive::Else, None),
        b'n' => dir_line(Directive::Endif, None),
        b'p' => {
            let mut name = String::with_capacity(1);
            name.push(c1 as char);
            Document::Label(name)
        }
        _ => Document::EmptyLine,
    })
}

/// Stub for `parser::parse_file_internal` (the `.include` arm must not reach the file system).
pub fn no_include_stub(_c: &ParseContext) -> Result<(), failure::Error> {
    Err(failure::err_msg("include not modelled"))
}

pub const KINDS: [&str; 7] = ["i0", "i1", "e0", "e1", "l", "n", "p"];
const PAYLOAD: [&str; 8] = ["pa", "pb", "pc", "pd", "pe", "pf", "pg", "ph"];

fn line_text(kind: u8, pos: usize) -> &'static str {
    match kind {
        0 => "i0",
        1 => "i1",
        2 => "e0",
        3 => "e1",
        4 => "l",
        5 => "n",
        _ => PAYLOAD[pos],
    }
}

/// Reference interpreter: which positions hold payload lines that must be assembled; None if
/// the sequence is not a well-nested conditional structure (such sequences are assumed away).
/// Frame = (some branch of this chain already taken, this branch active, .else seen).
pub fn reference(kinds: &[u8], n: usize) -> Option<[bool; 8]> {
    let mut out = [false; 8];
    // explicit stack of depth <= 3
    let mut taken = [false; 3];
    let mut active = [false; 3];
    let mut else_seen = [false; 3];
    let mut depth = 0usize;
    let mut i = 0;
    while i < n {
        let enclosing_active = depth == 0 || active[depth - 1];
        match kinds[i] {
            0 | 1 => {
                if depth == 3 {
                    return None;
                }
                let c = kinds[i] == 1;
                taken[depth] = enclosing_active && c;
                active[depth] = enclosing_active && c;
                else_seen[depth] = false;
                depth += 1;
            }
            2 | 3 => {
                if depth == 0 || else_seen[depth - 1] {
                    return None;
                }
                let outer = depth == 1 || active[depth - 2];
                let c = kinds[i] == 3;
                let now = outer && !taken[depth - 1] && c;
                active[depth - 1] = now;
                if now {
                    taken[depth - 1] = true;
                }
            }
            4 => {
                if depth == 0 || else_seen[depth - 1] {
                    return None;
                }
                let outer = depth == 1 || active[depth - 2];
                let now = outer && !taken[depth - 1];
                active[depth - 1] = now;
                if now {
                    taken[depth - 1] = true;
                }
                else_seen[depth - 1] = true;
            }
            5 => {
                if depth == 0 {
                    return None;
                }
                depth -= 1;
            }
            _ => {
                if enclosing_active {
                    out[i] = true;
                }
            }
        }
        i += 1;
    }
    if depth != 0 {
        return None;
    }
    Some(out)
}

struct Lines {
    texts: [&'static str; 8],
    n: usize,
    pos: usize,
}

impl Iterator for Lines {
    type Item = (usize, &'static str);
    fn next(&mut self) -> Option<(usize, &'static str)> {
        if self.pos < self.n {
            let r = (self.pos, self.texts[self.pos]);
            self.pos += 1;
            Some(r)
        } else {
            None
        }
    }
}

/// Fixed *shape* (which line is an .if / .elif / .else / .endif / payload), symbolic condition
/// values: the solver decides, for every truth assignment of the conditions, that exactly the
/// payload lines of the selected branches are assembled.
pub const SHAPES: [&[u8]; 8] = [
    b"IPNP",     // .if c / a / .endif / b
    b"IPLPN",    // .if c / a / .else / b / .endif
    b"IPEPN",    // .if c1 / a / .elif c2 / b / .endif
    b"IPEPLPNP", // .if c1 / a / .elif c2 / b / .else / c / .endif / d
    b"IIPNPLPN", // nested .if inside the first branch
    b"IPLIPNPN", // nested .if inside the .else branch
    b"IPEPEPN",  // two .elif
    b"IEPLPN",   // empty first branch
];

pub fn cond_shape<S: Src>(s: &mut S, shape: usize) {
    let pat = SHAPES[shape];
    let n = pat.len();
    let mut kinds = [6u8; 8];
    let mut texts: [&'static str; 8] = ["pa"; 8];
    const IFS: [&str; 8] = ["I0", "I1", "I2", "I3", "I4", "I5", "I6", "I7"];
    const ELIFS: [&str; 8] = ["E0", "E1", "E2", "E3", "E4", "E5", "E6", "E7"];
    let mut i = 0;
    while i < n {
        match pat[i] {
            b'I' => {
                let c = s.below(2);
                unsafe { CONDS[i] = c };
                kinds[i] = c;
                texts[i] = IFS[i];
            }
            b'E' => {
                let c = s.below(2);
                unsafe { CONDS[i] = c };
                kinds[i] = 2 + c;
                texts[i] = ELIFS[i];
            }
            b'L' => {
                kinds[i] = 4;
                texts[i] = "l";
            }
            b'N' => {
                kinds[i] = 5;
                texts[i] = "n";
            }
            _ => {
                kinds[i] = 6;
                texts[i] = PAYLOAD[i];
            }
        }
        i += 1;
    }
    cond_run(s, 100 + shape as u32, kinds, texts, n);
}

pub fn cond_n<S: Src>(s: &mut S, n: usize) {
    let mut kinds = [6u8; 8];
    let mut i = 0;
    while i < n {
        kinds[i] = s.below(7);
        i += 1;
    }
    let mut texts: [&'static str; 8] = ["pa"; 8];
    let mut i = 0;
    while i < n {
        texts[i] = line_text(kinds[i], i);
        i += 1;
    }
    cond_run(s, n as u32, kinds, texts, n);
}

fn cond_run<S: Src>(s: &mut S, role: u32, kinds: [u8; 8], texts: [&'static str; 8], n: usize) {
    s.role(H_C08_COND, role);
    let want = reference(&kinds, n);
    s.assume(want.is_some());
    let want = want.unwrap_or([false; 8]);
    let ctx = ParseContext::new(
        std::path::PathBuf::new(),
        std::cell::RefCell::new(avra_lib::vmap::BTreeSet::new()),
        CommonContext::new(),
    );
    #[cfg(not(kani))]
    let source_text: String = {
        // native: real text through the real grammar
        let mut t = String::new();
        for i in 0..n {
            t.push_str(match kinds[i] {
                0 => ".if 0",
                1 => ".if 1",
                2 => ".elif 0",
                3 => ".elif 1",
                4 => ".else",
                5 => ".endif",
                _ => ["pa:", "pb:", "pc:", "pd:", "pe:", "pf:", "pg:", "ph:"][i],
            });
            t.push('\n');
        }
        t
    };
    #[cfg(kani)]
    let res = {
        let mut it = Lines { texts, n, pos: 0 };
        parse_iter(&mut it, &ctx)
    };
    #[cfg(not(kani))]
    let res = {
        let _ = texts;
        avra_lib::parser::parse(&source_text, &ctx)
    };
    // which labels were assembled
    let mut got = [false; 8];
    {
        let segs = ctx.segments.borrow();
        let mut si = 0;
        while si < segs.len() {
            let seg = segs[si].borrow();
            let mut k = 0;
            while k < seg.items.len() {
                if let Item::Label(name) = &seg.items[k].1 {
                    let c = name.as_bytes()[1];
                    if c >= b'a' && c <= b'h' {
                        got[(c - b'a') as usize] = true;
                    }
                }
                k += 1;
            }
            si += 1;
        }
    }
    cov!(res.is_ok(), "!well-nested sequence parsed");
    #[cfg(not(kani))]
    {
        s.note_s("source", &source_text);
        s.note_s("parse", &format!("{:?}", res.as_ref().map_err(|e| e.to_string())));
        s.note_s("assembled", &format!("{:?}", &got[..n]));
        s.note_s("reference", &format!("{:?}", &want[..n]));
        println!("API-CONFIRMED");
    }
    chk!(s, res.is_ok(), "C08: a well-nested conditional structure failed to parse");
    let mut same = true;
    let mut i = 0;
    while i < n {
        if got[i] != want[i] {
            same = false;
        }
        i += 1;
    }
    chk!(s, same, "C08: the assembled lines are not exactly those of the selected branches");
    core::mem::forget(res);
    core::mem::forget(ctx);
}
