//! Pass-level scenarios: the real `build_pass_1` and `build_pass_2` (their item loops, the
//! running offsets, the padding loops, the symbol bookkeeping) on short programs of *concrete
//! shape* with symbolic values.  They decide what the unit harnesses cannot: label values vs
//! emitted positions and `.org` gaps (C02), `pc` = address of the item (C03), `.db` padding,
//! wrong-segment rejection and reservations (C06), `.set` / `.def` / `.undef` sequencing, letter
//! case and duplicate labels (C10), RAM extent (C12), the device gate as pass 2 consults it (C13),
//! and no-panic of those paths (C16).
//!
//! What made this possible (see DESIGN.md section 0, "stack-backed inputs"): CBMC folds the enum
//! tags of *stack* objects but not those of heap objects written by `push` / `vec![]` / `clone`.
//! `sv!` therefore makes every input vector (segments, items, operand lists) a view of a stack
//! array, and pass 2 is run on a stack-backed value that the solver has shown to be **equal** to
//! what pass 1 returned (`run_via`).  Induction over longer programs is by inspection of the
//! loops and is NOT machine-checked: the claim is the listed shapes, for all values.
use crate::ops::*;
use crate::refisa::*;
use crate::roles::*;
use crate::src::Src;
use crate::{chk, cov};
use avra_lib::builder::pass0::BuildResultPass0;
use avra_lib::builder::pass1::{build_pass_1, BuildResultPass1};
use avra_lib::builder::pass2::{build_pass_2, BuildResultPass2};
use avra_lib::context::CommonContext;
use avra_lib::device::{Device, DisabledOptions};
use avra_lib::directive::Operand;
use avra_lib::expr::Expr;
use avra_lib::instruction::operation::Operation;
use avra_lib::instruction::register::Reg16;
use avra_lib::instruction::{IndexOps, InstructionOps};
use avra_lib::parser::{CodePoint, DataDefine, Item, Segment, SegmentType};
use failure::Error;

/// `sv!(let name: T = [a, b, c]);` declares `name: Vec<T>`.
/// Under Kani the vector is a view of a stack array (`Vec::from_raw_parts(arr, n, 0)`).
/// Capacity 0 means nobody ever tries to deallocate the stack pointer; the code under test only
/// reads these vectors (iterates, clones, consumes with `into_iter`) and never grows them.
/// Natively the macro is a plain `vec![]`, so the replay runs on ordinary heap vectors.
#[cfg(kani)]
macro_rules! sv {
    (let $name:ident : $t:ty = []) => {
        let $name: Vec<$t> = Vec::new();
    };
    (let $name:ident : $t:ty = [$($e:expr),* $(,)?]) => {
        let mut __arr: core::mem::ManuallyDrop<[$t; sv!(@count $($e),*)]> = core::mem::ManuallyDrop::new([$($e),*]);
        let $name: Vec<$t> = unsafe { Vec::from_raw_parts(__arr.as_mut_ptr(), sv!(@count $($e),*), 0) };
    };
    (@count) => { 0usize };
    (@count $h:expr $(, $r:expr)*) => { 1usize + sv!(@count $($r),*) };
}
#[cfg(not(kani))]
macro_rules! sv {
    (let $name:ident : $t:ty = [$($e:expr),* $(,)?]) => {
        let $name: Vec<$t> = vec![$($e),*];
    };
}

type It = (CodePoint, Item);

fn cp(n: usize) -> CodePoint {
    CodePoint { line_num: n, num: 2 }
}
fn seg(t: SegmentType, address: u32, items: Vec<It>) -> Segment {
    Segment { items, t, address }
}
fn label(n: &str) -> Item {
    Item::Label(String::from(n))
}
fn k(v: i64) -> Operand {
    Operand::E(Expr::Const(v))
}
fn id(n: &str) -> Operand {
    Operand::E(Expr::Ident(String::from(n)))
}
fn word_at(code: &Vec<u8>, w: usize) -> Option<u16> {
    if code.len() >= 2 * w + 2 {
        Some(code[2 * w] as u16 | ((code[2 * w + 1] as u16) << 8))
    } else {
        None
    }
}
fn byte_at(v: &Vec<u8>, i: usize) -> Option<u8> {
    if i < v.len() {
        Some(v[i])
    } else {
        None
    }
}
/// one-letter name, upper-cased when `upper`
fn nm(letter: u8, upper: bool) -> String {
    let mut v: Vec<u8> = Vec::with_capacity(1);
    v.push(if upper { letter - 32 } else { letter });
    unsafe { String::from_utf8_unchecked(v) }
}

#[cfg(not(kani))]
fn note_result<S: Src>(s: &mut S, r: &Result<BuildResultPass2, Error>) {
    match r {
        Ok(b) => s.note_s("passes", &format!("Ok(code={:02x?} eeprom={:02x?} ram_filling={})", b.code, b.eeprom, b.ram_filling)),
        Err(e) => s.note_s("passes", &format!("Err({})", e)),
    }
}

/// Pass 1 and pass 2 chained through an *equal stack-backed copy* of pass 1's result.
/// `expected` is what pass 1 must hand over according to the reference layout (the items that
/// produce output, `.db` lists padded, segment addresses resolved).  The solver decides
/// `expected[i] == build_pass_1(..).segments[i]` (derived `PartialEq`; expected on the left so the
/// folded side drives the match) and the RAM figure; pass 2 then runs on `expected`.  Because the
/// two are equal this is the real pipeline.  Returns (pass 1 agreed, result of the pipeline).
fn run_via(
    segments: Vec<Segment>,
    expected: Vec<Segment>,
    n_expected: usize,
    ram_filling: u32,
    common: &CommonContext,
) -> (bool, Result<BuildResultPass2, Error>) {
    let p0 = BuildResultPass0 { segments, messages: vec![] };
    let p1 = match build_pass_1(p0, common) {
        Ok(p1) => p1,
        Err(e) => {
            core::mem::forget(expected);
            return (true, Err(e));
        }
    };
    // Natively the two passes are chained for real (heap vectors are no obstacle there): a
    // counterexample is only reported when the real pipeline's outcome is wrong, so a pass 1 that
    // hands over something else but equivalent is not a false alarm.
    #[cfg(not(kani))]
    {
        let _ = (expected, n_expected, ram_filling);
        return (true, build_pass_2(p1, common));
    }
    #[cfg(kani)]
    let mut same = p1.segments.len() == n_expected && p1.ram_filling == ram_filling;
    #[cfg(kani)]
    {
        if same {
            let mut i = 0;
            while i < n_expected {
                if !(expected[i] == p1.segments[i]) {
                    same = false;
                }
                i += 1;
            }
        }
        core::mem::forget(p1);
        let r = build_pass_2(BuildResultPass1 { segments: expected, ram_filling, messages: vec![] }, common);
        (same, r)
    }
}

fn pass1_only(segments: Vec<Segment>, common: &CommonContext) -> Result<BuildResultPass1, Error> {
    build_pass_1(BuildResultPass0 { segments, messages: vec![] }, common)
}


// ------------------------------------------------------------------------------------------
// S2 — `.db` of n = 1..=3 byte constants in flash at word address `start` (concrete per harness), then
// `l: .dw l`.  Odd byte counts are padded with one zero byte; l = start + ceil(n/2).

pub fn layout_db<S: Src>(s: &mut S, n: usize, start: u32) {
    s.role(H_C02_STEP, 10 + n as u32);
    let b = [s.u8(), s.u8(), s.u8()];
    let kb = |i: usize| k(b[i] as i64);
    match n {
        1 => {
            sv!(let o: Operand = [kb(0)]);
            sv!(let e: Operand = [kb(0), k(0)]);
            db_go(s, n, start, b, o, e);
        }
        2 => {
            sv!(let o: Operand = [kb(0), kb(1)]);
            sv!(let e: Operand = [kb(0), kb(1)]);
            db_go(s, n, start, b, o, e);
        }
        _ => {
            sv!(let o: Operand = [kb(0), kb(1), kb(2)]);
            sv!(let e: Operand = [kb(0), kb(1), kb(2), k(0)]);
            db_go(s, n, start, b, o, e);
        }
    }
}

fn db_go<S: Src>(s: &mut S, n: usize, start: u32, b: [u8; 3], ops: Vec<Operand>, eops: Vec<Operand>) {
    let common = CommonContext::new();
    sv!(let dl: Operand = [id("l")]);
    sv!(let items: It = [(cp(1), Item::Data(DataDefine::Db, ops)), (cp(2), label("l")), (cp(3), Item::Data(DataDefine::Dw, dl))]);
    sv!(let segs: Segment = [seg(SegmentType::Code, start, items)]);
    sv!(let edl: Operand = [id("l")]);
    sv!(let eitems: It = [(cp(1), Item::Data(DataDefine::Db, eops)), (cp(3), Item::Data(DataDefine::Dw, edl))]);
    sv!(let esegs: Segment = [seg(SegmentType::Code, start, eitems)]);
    let (same, res) = run_via(segs, esegs, 1, 0, &common);
    cov!(res.is_ok(), "!segment assembled");
    #[cfg(not(kani))]
    {
        s.note("start", start as i64);
        s.note("n", n as i64);
        note_result(s, &res);
    }
    chk!(s, same, "C06: pass 1 does not hand the .db list over padded to an even length at its resolved address");
    chk!(s, res.is_ok(), "C06: a .db line of byte constants failed to build");
    if let Ok(r) = &res {
        let st = 2 * start as usize;
        let padded = (n + 1) / 2 * 2;
        chk!(s, r.code.len() == st + padded + 2, "C06: flash image length differs from gap + padded .db + .dw");
        let mut ok = true;
        if n > 0 && byte_at(&r.code, st) != Some(b[0]) {
            ok = false;
        }
        if n > 1 && byte_at(&r.code, st + 1) != Some(b[1]) {
            ok = false;
        }
        if n > 2 && byte_at(&r.code, st + 2) != Some(b[2]) {
            ok = false;
        }
        chk!(s, ok, "C06: .db bytes not emitted in source order");
        if n % 2 == 1 {
            chk!(s, byte_at(&r.code, st + n) == Some(0), "C06: odd-length .db not padded with a zero byte");
        }
        chk!(
            s,
            word_at(&r.code, (st + padded) / 2) == Some(((st + padded) / 2) as u16),
            "C02: label after .db differs from the position of the next item"
        );
    }
    core::mem::forget(res);
    core::mem::forget(common);
}

// ------------------------------------------------------------------------------------------
// S5 — items in the wrong segment fail the build (pass 1).
// case 0: .dw in .dseg, 1: .db in .dseg, 2: .byte in .cseg, 3: instruction in .eseg,
//      4: .dd in .dseg, 5: .dq in .dseg, 6: instruction in .dseg

pub fn wrong_segment<S: Src>(s: &mut S, case: u8) {
    s.role(H_C02_STEP, 40 + case as u32);
    let v = s.u8() as i64;
    let common = CommonContext::new();
    sv!(let o: Operand = [k(v)]);
    sv!(let n0: InstructionOps = []);
    let (t, item) = match case {
        0 => (SegmentType::Data, Item::Data(DataDefine::Dw, o)),
        1 => (SegmentType::Data, Item::Data(DataDefine::Db, o)),
        2 => (SegmentType::Code, Item::ReserveData(v & 3)),
        3 => (SegmentType::Eeprom, Item::Instruction(Operation::Nop, n0)),
        4 => (SegmentType::Data, Item::Data(DataDefine::Dd, o)),
        5 => (SegmentType::Data, Item::Data(DataDefine::Dq, o)),
        _ => (SegmentType::Data, Item::Instruction(Operation::Nop, n0)),
    };
    sv!(let items: It = [(cp(1), item)]);
    sv!(let segs: Segment = [seg(t, 0, items)]);
    let res = pass1_only(segs, &common);
    cov!(res.is_err(), "!misplaced item rejected");
    #[cfg(not(kani))]
    {
        s.note("case", case as i64);
        s.note_s("pass1", &format!("{:?}", res.as_ref().map(|_| "Ok").map_err(|e| e.to_string())));
    }
    chk!(s, res.is_err(), "C06: a data directive / instruction in the wrong segment was accepted");
    core::mem::forget(res);
    core::mem::forget(common);
}

// ------------------------------------------------------------------------------------------
// S9 — duplicate labels fail the build (pass 1): same name twice in one code segment (case 0)
// or in two segments of different kinds (1: code + data, 2: code + eeprom, 3: data + eeprom).

pub fn duplicate_label<S: Src>(s: &mut S, case: u8) {
    s.role(H_C10_PASS, 20 + case as u32);
    let common = CommonContext::new();
    sv!(let n0: InstructionOps = []);
    sv!(let n1: InstructionOps = []);
    let nop0 = Item::Instruction(Operation::Nop, n0);
    let nop1 = Item::Instruction(Operation::Nop, n1);
    let res = match case {
        0 => {
            sv!(let i1: It = [(cp(1), label("d")), (cp(2), nop0), (cp(3), label("d")), (cp(4), nop1)]);
            sv!(let segs: Segment = [seg(SegmentType::Code, 0, i1)]);
            pass1_only(segs, &common)
        }
        1 | 2 => {
            sv!(let i1: It = [(cp(1), label("d")), (cp(2), nop0)]);
            sv!(let i2: It = [(cp(3), label("d")), (cp(4), Item::ReserveData(1))]);
            core::mem::forget(nop1);
            sv!(let segs: Segment = [
                seg(SegmentType::Code, 0, i1),
                seg(if case == 1 { SegmentType::Data } else { SegmentType::Eeprom }, 0, i2),
            ]);
            pass1_only(segs, &common)
        }
        _ => {
            sv!(let i1: It = [(cp(1), label("d")), (cp(2), Item::ReserveData(1))]);
            sv!(let i2: It = [(cp(3), label("d")), (cp(4), Item::ReserveData(1))]);
            core::mem::forget(nop0);
            core::mem::forget(nop1);
            sv!(let segs: Segment = [seg(SegmentType::Data, 0, i1), seg(SegmentType::Eeprom, 0, i2)]);
            pass1_only(segs, &common)
        }
    };
    cov!(res.is_err(), "!duplicate label rejected");
    #[cfg(not(kani))]
    {
        s.note("case", case as i64);
        s.note_s("pass1", &format!("{:?}", res.as_ref().map(|_| "Ok").map_err(|e| e.to_string())));
    }
    chk!(s, res.is_err(), "C10: a duplicate label was accepted");
    core::mem::forget(res);
    core::mem::forget(common);
}

// ------------------------------------------------------------------------------------------
// S10 — the device gate as pass 2 consults it.
// which 0: `mul rD, rR` on a device with / without NoMul (flag symbolic)
// which 1: `ld r16, X` on a device with / without NoXreg
// which 2: `lpm r16, Z` on a device with / without NoLpmX

pub fn gate_in_pass2<S: Src>(s: &mut S, which: u8) {
    s.role(H_C13_GATE, 200 + which as u32);
    let missing = s.bool();
    let d = s.below(32);
    let r = s.below(32);
    let common = CommonContext::new();
    let flag = match which {
        0 => DisabledOptions::NoMul,
        1 => DisabledOptions::NoXreg,
        _ => DisabledOptions::NoLpmX,
    };
    let mut dev = Device::new(0);
    if missing {
        dev.disable_opts = avra_lib::vmap::BTreeSet::from_sorted_vec(vec![flag]);
    }
    common.device.replace(Some(dev));
    let rd = || InstructionOps::R8(crate::ctx::reg(d));
    let (op, op2, want): (Operation, Operation, u16) = match which {
        0 => (Operation::Mul, Operation::Mul, 0x9c00u16 | ((r as u16 & 0x10) << 5) | ((d as u16) << 4) | (r as u16 & 0x0f)),
        1 => (Operation::Ld, Operation::Ld, 0x900c | ((d as u16) << 4)),
        _ => (Operation::Lpm, Operation::Lpm, 0x9004 | ((d as u16) << 4)),
    };
    let second = |w: u8| match w {
        0 => InstructionOps::R8(crate::ctx::reg(r)),
        1 => InstructionOps::Index(IndexOps::None(Reg16::X)),
        _ => InstructionOps::Index(IndexOps::None(Reg16::Z)),
    };
    sv!(let a_in: InstructionOps = [rd(), second(which)]);
    sv!(let a_ex: InstructionOps = [rd(), second(which)]);
    sv!(let items: It = [(cp(1), Item::Instruction(op, a_in))]);
    sv!(let eitems: It = [(cp(1), Item::Instruction(op2, a_ex))]);
    sv!(let segs: Segment = [seg(SegmentType::Code, 0, items)]);
    sv!(let esegs: Segment = [seg(SegmentType::Code, 0, eitems)]);
    let (same, res) = run_via(segs, esegs, 1, 0, &common);
    cov!(res.is_ok(), "!instruction assembled on a core that has it");
    cov!(res.is_err(), "instruction rejected on a core that lacks it");
    #[cfg(not(kani))]
    {
        s.note("which", which as i64);
        s.note("feature missing", missing as i64);
        s.note("d", d as i64);
        s.note("r", r as i64);
        note_result(s, &res);
    }
    chk!(s, same, "C02: pass 1 hands pass 2 something else than the output-producing items at their resolved addresses");
    chk!(s, res.is_ok() == !missing, "C13: pass 2 does not consult the device gate (or consults it wrongly)");
    if let Ok(b) = &res {
        chk!(s, b.code.len() == 2 && word_at(&b.code, 0) == Some(want), "C13: an allowed instruction assembles differently with a device selected");
    }
    core::mem::forget(res);
    core::mem::forget(common);
}

// ------------------------------------------------------------------------------------------
// S12 — `.set` of a name that is already bound otherwise (label / second kind) is an error
// value, never a panic (C16: RefCell borrows on the "used twice" path).
// which 0: `l: .set l = v` ; which 1: `.set a = v ; .set a = w` twice (fine) then `.dw a`

pub fn set_conflict<S: Src>(s: &mut S) {
    s.role(H_C10_PASS, 30);
    let v = s.u16() as i64;
    let common = CommonContext::new();
    let l = || String::from("l");
    sv!(let items: It = [(cp(1), label("l")), (cp(2), Item::Set(l(), Expr::Const(v)))]);
    sv!(let segs: Segment = [seg(SegmentType::Code, 0, items)]);
    sv!(let eitems: It = [(cp(2), Item::Set(l(), Expr::Const(v)))]);
    sv!(let esegs: Segment = [seg(SegmentType::Code, 0, eitems)]);
    let (same, res) = run_via(segs, esegs, 1, 0, &common);
    cov!(res.is_err(), "!conflicting .set rejected");
    #[cfg(not(kani))]
    {
        note_result(s, &res);
    }
    chk!(s, same, "C02: pass 1 hands pass 2 something else than the output-producing items at their resolved addresses");
    chk!(s, res.is_err(), "C10: a .set of a name that is already a label was accepted");
    core::mem::forget(res);
    core::mem::forget(common);
}

// ==========================================================================================
// Small scenarios (at most three items): the larger ones above build formulas of 9-15 million
// variables and run out of the address-space cap; these are the ones registered in the tiers.

/// generic tail: one code segment `items` -> `eitems`, expected `want` words (None = don't care)
fn one_seg<S: Src>(
    s: &mut S,
    common: &CommonContext,
    start: u32,
    items: Vec<It>,
    eitems: Vec<It>,
) -> (bool, Result<BuildResultPass2, Error>) {
    sv!(let segs: Segment = [seg(SegmentType::Code, start, items)]);
    sv!(let esegs: Segment = [seg(SegmentType::Code, start, eitems)]);
    let r = run_via(segs, esegs, 1, 0, common);
    #[cfg(not(kani))]
    note_result(s, &r.1);
    r
}

/// T1 — `.set <a> = v ; .dw <a>` with the two occurrences in independent (symbolic) letter case
pub fn set_use<S: Src>(s: &mut S) {
    s.role(H_C10_PASS, 40);
    let v = s.u16() as i64;
    let c = [s.bool(), s.bool()];
    let common = CommonContext::new();
    sv!(let d: Operand = [Operand::E(Expr::Ident(nm(b'a', c[1])))]);
    sv!(let ed: Operand = [Operand::E(Expr::Ident(nm(b'a', c[1])))]);
    sv!(let items: It = [(cp(1), Item::Set(nm(b'a', c[0]), Expr::Const(v))), (cp(2), Item::Data(DataDefine::Dw, d))]);
    sv!(let eitems: It = [(cp(1), Item::Set(nm(b'a', c[0]), Expr::Const(v))), (cp(2), Item::Data(DataDefine::Dw, ed))]);
    #[cfg(not(kani))]
    s.note_s("program", &format!(".set {} = {} / .dw {}", nm(b'a', c[0]), v, nm(b'a', c[1])));
    let (same, res) = one_seg(s, &common, 0, items, eitems);
    cov!(res.is_ok(), "!program assembled");
    cov!(res.is_ok() && c[0] != c[1], "definition and use differ in letter case");
    chk!(s, same, "C02: pass 1 hands pass 2 something else than the output-producing items at their resolved addresses");
    chk!(s, res.is_ok(), "C10: a reference to a .set variable failed to resolve (names differ only in letter case)");
    if let Ok(r) = &res {
        chk!(s, r.code.len() == 2 && word_at(&r.code, 0) == Some(v as u16), "C10: .set value not visible to the next reference");
    }
    core::mem::forget(res);
    core::mem::forget(common);
}

/// T2 — `.set a = v1 ; .set <a> = v2 ; .dw a`: the latest preceding assignment wins, whatever its letter case
pub fn set_twice<S: Src>(s: &mut S) {
    s.role(H_C10_PASS, 41);
    let v1 = s.u16() as i64;
    let v2 = s.u16() as i64;
    let c = s.bool();
    let common = CommonContext::new();
    sv!(let d: Operand = [id("a")]);
    sv!(let ed: Operand = [id("a")]);
    sv!(let items: It = [
        (cp(1), Item::Set(String::from("a"), Expr::Const(v1))),
        (cp(2), Item::Set(nm(b'a', c), Expr::Const(v2))),
        (cp(3), Item::Data(DataDefine::Dw, d)),
    ]);
    sv!(let eitems: It = [
        (cp(1), Item::Set(String::from("a"), Expr::Const(v1))),
        (cp(2), Item::Set(nm(b'a', c), Expr::Const(v2))),
        (cp(3), Item::Data(DataDefine::Dw, ed)),
    ]);
    #[cfg(not(kani))]
    s.note_s("program", &format!(".set a = {} / .set {} = {} / .dw a", v1, nm(b'a', c), v2));
    let (same, res) = one_seg(s, &common, 0, items, eitems);
    cov!(res.is_ok(), "!program assembled");
    chk!(s, same, "C02: pass 1 hands pass 2 something else than the output-producing items at their resolved addresses");
    chk!(s, res.is_ok(), "C10: re-assigning a .set variable failed to build");
    if let Ok(r) = &res {
        chk!(s, r.code.len() == 2 && word_at(&r.code, 0) == Some(v2 as u16), "C10: reference does not see the latest preceding .set");
    }
    core::mem::forget(res);
    core::mem::forget(common);
}

/// T3 — `.def <t> = r17` followed by (case 0) `com <t>`, (case 1) `.undef <t>`,
/// (case 2, lower case only) `.undef t ; com t`
pub fn def_small<S: Src>(s: &mut S, case: u8) {
    s.role(H_C10_PASS, 50 + case as u32);
    let c = [s.bool(), s.bool()];
    let common = CommonContext::new();
    let r17 = || Expr::Ident(String::from("r17"));
    let t = |i: usize| nm(b't', c[i]);
    sv!(let a1: InstructionOps = [InstructionOps::E(Expr::Ident(t(1)))]);
    sv!(let b1: InstructionOps = [InstructionOps::E(Expr::Ident(t(1)))]);
    #[cfg(not(kani))]
    s.note_s("names", &format!("case {}: .def {} = r17 / then {}", case, t(0), t(1)));
    let (same, res) = match case {
        0 => {
            sv!(let items: It = [(cp(1), Item::Def(t(0), r17())), (cp(2), Item::Instruction(Operation::Com, a1))]);
            sv!(let eitems: It = [(cp(1), Item::Def(t(0), r17())), (cp(2), Item::Instruction(Operation::Com, b1))]);
            one_seg(s, &common, 0, items, eitems)
        }
        1 => {
            // state after `.def t = r17` built directly, the way pass 2 installs an alias
            // (`set_def(alias.to_lowercase(), register)`); then `.undef <t>` in any letter case
            use avra_lib::context::Context;
            let _ = common.set_def(String::from("t"), crate::ctx::reg(17));
            core::mem::forget(a1);
            core::mem::forget(b1);
            sv!(let items: It = [(cp(2), Item::Undef(t(1)))]);
            sv!(let eitems: It = [(cp(2), Item::Undef(t(1)))]);
            one_seg(s, &common, 0, items, eitems)
        }
        _ => {
            use avra_lib::context::Context;
            let _ = common.set_def(String::from("t"), crate::ctx::reg(17));
            s.assume(!c[0] && !c[1]);
            sv!(let items: It = [(cp(2), Item::Undef(t(0))), (cp(3), Item::Instruction(Operation::Com, a1))]);
            sv!(let eitems: It = [(cp(2), Item::Undef(t(0))), (cp(3), Item::Instruction(Operation::Com, b1))]);
            one_seg(s, &common, 0, items, eitems)
        }
    };
    chk!(s, same, "C02: pass 1 hands pass 2 something else than the output-producing items at their resolved addresses");
    match case {
        0 => {
            cov!(res.is_ok(), "!alias assembled");
            chk!(s, res.is_ok(), "C10: an instruction using a .def alias failed to build (names differ only in letter case)");
            if let Ok(b) = &res {
                chk!(s, b.code.len() == 2 && word_at(&b.code, 0) == Some(0x9400 | (17u16 << 4)), "C10: instruction using an alias differs from the one using the register");
            }
        }
        1 => {
            cov!(res.is_ok(), "!alias undefined");
            chk!(s, res.is_ok(), "C10: .undef of a defined alias failed to build (names differ only in letter case)");
        }
        _ => {
            cov!(res.is_err(), "!use after .undef rejected");
            chk!(s, res.is_err(), "C10: an alias used after .undef still assembled");
        }
    }
    core::mem::forget(res);
    core::mem::forget(common);
}

/// T4 — `<instruction> ; l: ; .dw l` at word address `start`: the label is the position of the next item
/// which: 0 nop, 1 jmp k, 2 lds r,k, 3 sts k,r (the last two one word long on a reduced core)
pub fn instr_label<S: Src>(s: &mut S, which: u8, avr8l: bool, start: u32) {
    s.role(H_C02_STEP, 60 + which as u32);
    let r = s.below(32);
    let kk = s.u16();
    if avr8l {
        s.assume(r >= 16 && kk >= 0x40 && kk <= 0xbf);
    }
    let common = CommonContext::new();
    if avr8l {
        common.device.replace(Some(crate::ctx::device(true)));
    }
    let ke = || InstructionOps::E(Expr::Const(kk as i64));
    let re = || InstructionOps::R8(crate::ctx::reg(r));
    let (a, n): ([A; 3], usize) = match which {
        0 => ([A::K(0), A::K(0), A::K(0)], 0),
        1 => ([A::K(kk as i64), A::K(0), A::K(0)], 1),
        2 => ([A::R(r), A::K(kk as i64), A::K(0)], 2),
        _ => ([A::K(kk as i64), A::R(r), A::K(0)], 2),
    };
    let mkop = |w: u8| match w {
        0 => Operation::Nop,
        1 => Operation::Jmp,
        2 => Operation::Lds,
        _ => Operation::Sts,
    };
    let expect = ref_encode(&mkop(which), &a[..n], start, avr8l);
    sv!(let d1: Operand = [id("l")]);
    sv!(let e1: Operand = [id("l")]);
    let (same, res) = match which {
        0 => {
            sv!(let x: InstructionOps = []);
            sv!(let y: InstructionOps = []);
            sv!(let items: It = [(cp(1), Item::Instruction(Operation::Nop, x)), (cp(2), label("l")), (cp(3), Item::Data(DataDefine::Dw, d1))]);
            sv!(let eitems: It = [(cp(1), Item::Instruction(Operation::Nop, y)), (cp(3), Item::Data(DataDefine::Dw, e1))]);
            one_seg(s, &common, start, items, eitems)
        }
        1 => {
            sv!(let x: InstructionOps = [ke()]);
            sv!(let y: InstructionOps = [ke()]);
            sv!(let items: It = [(cp(1), Item::Instruction(Operation::Jmp, x)), (cp(2), label("l")), (cp(3), Item::Data(DataDefine::Dw, d1))]);
            sv!(let eitems: It = [(cp(1), Item::Instruction(Operation::Jmp, y)), (cp(3), Item::Data(DataDefine::Dw, e1))]);
            one_seg(s, &common, start, items, eitems)
        }
        2 => {
            sv!(let x: InstructionOps = [re(), ke()]);
            sv!(let y: InstructionOps = [re(), ke()]);
            sv!(let items: It = [(cp(1), Item::Instruction(Operation::Lds, x)), (cp(2), label("l")), (cp(3), Item::Data(DataDefine::Dw, d1))]);
            sv!(let eitems: It = [(cp(1), Item::Instruction(Operation::Lds, y)), (cp(3), Item::Data(DataDefine::Dw, e1))]);
            one_seg(s, &common, start, items, eitems)
        }
        _ => {
            sv!(let x: InstructionOps = [ke(), re()]);
            sv!(let y: InstructionOps = [ke(), re()]);
            sv!(let items: It = [(cp(1), Item::Instruction(Operation::Sts, x)), (cp(2), label("l")), (cp(3), Item::Data(DataDefine::Dw, d1))]);
            sv!(let eitems: It = [(cp(1), Item::Instruction(Operation::Sts, y)), (cp(3), Item::Data(DataDefine::Dw, e1))]);
            one_seg(s, &common, start, items, eitems)
        }
    };
    cov!(res.is_ok(), "!segment assembled");
    #[cfg(not(kani))]
    {
        s.note("start", start as i64);
        s.note_s("instruction", &format!("{:?} {:?}", mkop(which), &a[..n]));
        s.note_s("reference", &format!("{:x?}", expect));
    }
    chk!(s, same, "C02: pass 1 hands pass 2 something else than the output-producing items at their resolved addresses");
    chk!(s, res.is_ok() && expect.is_some(), "C02: a valid one-instruction segment failed to build");
    if let (Ok(b), Some(e)) = (&res, &expect) {
        let len: usize = if e.w1.is_some() { 2 } else { 1 };
        let st = start as usize;
        chk!(s, b.code.len() == 2 * (st + len + 1), "C02: image length differs from .org gap + instruction + data");
        let mut gap_zero = true;
        if st > 0 && word_at(&b.code, 0) != Some(0) {
            gap_zero = false;
        }
        if st > 1 && word_at(&b.code, 1) != Some(0) {
            gap_zero = false;
        }
        chk!(s, gap_zero, "C02: the .org gap is not filled with zero bytes");
        chk!(s, word_at(&b.code, st) == Some(e.w0), "C02: instruction does not land at the .org address");
        if let Some(w1) = e.w1 {
            chk!(s, word_at(&b.code, st + 1) == Some(w1), "C02: second instruction word misplaced");
        }
        chk!(s, word_at(&b.code, st + len) == Some((st + len) as u16), "C02: label value differs from the position where the next item was emitted");
    }
    core::mem::forget(res);
    core::mem::forget(common);
}

/// T5 — `pc` is the address of the item being emitted: (which 0) `.dw pc` alone, (1) `.db a, b ; .dw pc`,
/// (2) `jmp k ; .dw pc`, at word address `start`
pub fn pc_value<S: Src>(s: &mut S, which: u8, start: u32) {
    s.role(H_C02_STEP, 70 + which as u32);
    let b = [s.u8(), s.u8()];
    let kk = s.u16();
    let common = CommonContext::new();
    sv!(let d: Operand = [id("pc")]);
    sv!(let ed: Operand = [id("pc")]);
    let (same, res, before): (bool, Result<BuildResultPass2, Error>, usize) = match which {
        0 => {
            sv!(let items: It = [(cp(1), Item::Data(DataDefine::Dw, d))]);
            sv!(let eitems: It = [(cp(1), Item::Data(DataDefine::Dw, ed))]);
            let (a, r) = one_seg(s, &common, start, items, eitems);
            (a, r, 0)
        }
        1 => {
            sv!(let o: Operand = [k(b[0] as i64), k(b[1] as i64)]);
            sv!(let eo: Operand = [k(b[0] as i64), k(b[1] as i64)]);
            sv!(let items: It = [(cp(1), Item::Data(DataDefine::Db, o)), (cp(2), Item::Data(DataDefine::Dw, d))]);
            sv!(let eitems: It = [(cp(1), Item::Data(DataDefine::Db, eo)), (cp(2), Item::Data(DataDefine::Dw, ed))]);
            let (a, r) = one_seg(s, &common, start, items, eitems);
            (a, r, 1)
        }
        _ => {
            sv!(let x: InstructionOps = [InstructionOps::E(Expr::Const(kk as i64))]);
            sv!(let y: InstructionOps = [InstructionOps::E(Expr::Const(kk as i64))]);
            sv!(let items: It = [(cp(1), Item::Instruction(Operation::Jmp, x)), (cp(2), Item::Data(DataDefine::Dw, d))]);
            sv!(let eitems: It = [(cp(1), Item::Instruction(Operation::Jmp, y)), (cp(2), Item::Data(DataDefine::Dw, ed))]);
            let (a, r) = one_seg(s, &common, start, items, eitems);
            (a, r, 2)
        }
    };
    cov!(res.is_ok(), "!segment assembled");
    chk!(s, same, "C02: pass 1 hands pass 2 something else than the output-producing items at their resolved addresses");
    chk!(s, res.is_ok(), "C03: a segment using pc failed to build");
    if let Ok(r) = &res {
        let at = start as usize + before;
        chk!(s, r.code.len() == 2 * (at + 1) && word_at(&r.code, at) == Some(at as u16), "C03: pc is not the address of the item being emitted");
    }
    core::mem::forget(res);
    core::mem::forget(common);
}

/// T6 — eeprom: (which 0) `.db a` ; second block at `.org 3`: `.db b`  -> a 0 0 b
///              (which 1) `.db a, b, c ; l:` ; code `.dw l`         -> odd length unpadded, l = 3
///              (which 2) `.db a ; .byte n ; .db b` (n concrete)     -> a, n zeros, b
///              (which 3) `.db a ; .byte n` (reservation last)       -> a, n zeros
///              (which 4) `.byte n ; .dw w`                          -> n zeros, w low, w high
pub fn eeprom_small<S: Src>(s: &mut S, which: u8, n: i64) {
    s.role(H_C02_STEP, 80 + which as u32);
    let b = [s.u8(), s.u8(), s.u8()];
    let common = CommonContext::new();
    let kb = |i: usize| k(b[i] as i64);
    let (same, res) = match which {
        0 => {
            sv!(let o1: Operand = [kb(0)]);
            sv!(let o2: Operand = [kb(1)]);
            sv!(let p1: Operand = [kb(0)]);
            sv!(let p2: Operand = [kb(1)]);
            sv!(let i1: It = [(cp(1), Item::Data(DataDefine::Db, o1))]);
            sv!(let i2: It = [(cp(2), Item::Data(DataDefine::Db, o2))]);
            sv!(let e1: It = [(cp(1), Item::Data(DataDefine::Db, p1))]);
            sv!(let e2: It = [(cp(2), Item::Data(DataDefine::Db, p2))]);
            sv!(let segs: Segment = [seg(SegmentType::Eeprom, 0, i1), seg(SegmentType::Eeprom, 3, i2)]);
            sv!(let esegs: Segment = [seg(SegmentType::Eeprom, 0, e1), seg(SegmentType::Eeprom, 3, e2)]);
            run_via(segs, esegs, 2, 0, &common)
        }
        1 => {
            sv!(let o1: Operand = [kb(0), kb(1), kb(2)]);
            sv!(let p1: Operand = [kb(0), kb(1), kb(2)]);
            sv!(let o2: Operand = [id("l")]);
            sv!(let p2: Operand = [id("l")]);
            sv!(let i1: It = [(cp(1), Item::Data(DataDefine::Db, o1)), (cp(2), label("l"))]);
            sv!(let i2: It = [(cp(3), Item::Data(DataDefine::Dw, o2))]);
            sv!(let e1: It = [(cp(1), Item::Data(DataDefine::Db, p1))]);
            sv!(let e2: It = [(cp(3), Item::Data(DataDefine::Dw, p2))]);
            sv!(let segs: Segment = [seg(SegmentType::Eeprom, 0, i1), seg(SegmentType::Code, 0, i2)]);
            sv!(let esegs: Segment = [seg(SegmentType::Eeprom, 0, e1), seg(SegmentType::Code, 0, e2)]);
            run_via(segs, esegs, 2, 0, &common)
        }
        3 => {
            sv!(let o1: Operand = [kb(0)]);
            sv!(let p1: Operand = [kb(0)]);
            sv!(let i1: It = [(cp(1), Item::Data(DataDefine::Db, o1)), (cp(2), Item::ReserveData(n))]);
            sv!(let e1: It = [(cp(1), Item::Data(DataDefine::Db, p1)), (cp(2), Item::ReserveData(n))]);
            sv!(let segs: Segment = [seg(SegmentType::Eeprom, 0, i1)]);
            sv!(let esegs: Segment = [seg(SegmentType::Eeprom, 0, e1)]);
            run_via(segs, esegs, 1, 0, &common)
        }
        4 => {
            let w = b[0] as i64 | ((b[1] as i64) << 8);
            sv!(let o1: Operand = [k(w)]);
            sv!(let p1: Operand = [k(w)]);
            sv!(let i1: It = [(cp(1), Item::ReserveData(n)), (cp(2), Item::Data(DataDefine::Dw, o1))]);
            sv!(let e1: It = [(cp(1), Item::ReserveData(n)), (cp(2), Item::Data(DataDefine::Dw, p1))]);
            sv!(let segs: Segment = [seg(SegmentType::Eeprom, 0, i1)]);
            sv!(let esegs: Segment = [seg(SegmentType::Eeprom, 0, e1)]);
            run_via(segs, esegs, 1, 0, &common)
        }
        _ => {
            sv!(let o1: Operand = [kb(0)]);
            sv!(let o2: Operand = [kb(1)]);
            sv!(let p1: Operand = [kb(0)]);
            sv!(let p2: Operand = [kb(1)]);
            sv!(let i1: It = [(cp(1), Item::Data(DataDefine::Db, o1)), (cp(2), Item::ReserveData(n)), (cp(3), Item::Data(DataDefine::Db, o2))]);
            sv!(let e1: It = [(cp(1), Item::Data(DataDefine::Db, p1)), (cp(2), Item::ReserveData(n)), (cp(3), Item::Data(DataDefine::Db, p2))]);
            sv!(let segs: Segment = [seg(SegmentType::Eeprom, 0, i1)]);
            sv!(let esegs: Segment = [seg(SegmentType::Eeprom, 0, e1)]);
            run_via(segs, esegs, 1, 0, &common)
        }
    };
    #[cfg(not(kani))]
    {
        s.note("which", which as i64);
        note_result(s, &res);
    }
    cov!(res.is_ok(), "!program assembled");
    chk!(s, same, "C02: pass 1 hands pass 2 something else than the output-producing items at their resolved addresses");
    chk!(s, res.is_ok(), "C06: a valid eeprom program failed to build");
    if let Ok(r) = &res {
        match which {
            0 => {
                chk!(s, r.eeprom.len() == 4, "C02: eeprom image length differs from data + .org gap");
                chk!(s, byte_at(&r.eeprom, 0) == Some(b[0]) && byte_at(&r.eeprom, 3) == Some(b[1]), "C02: eeprom block does not land at its .org address");
                chk!(s, byte_at(&r.eeprom, 1) == Some(0) && byte_at(&r.eeprom, 2) == Some(0), "C02: eeprom .org gap not zero filled");
            }
            1 => {
                chk!(s, r.eeprom.len() == 3, "C06: odd-length .db in eeprom must not be padded");
                chk!(s, byte_at(&r.eeprom, 0) == Some(b[0]) && byte_at(&r.eeprom, 1) == Some(b[1]) && byte_at(&r.eeprom, 2) == Some(b[2]), "C06: eeprom .db bytes not in source order");
                chk!(s, r.code.len() == 2 && word_at(&r.code, 0) == Some(3), "C02: eeprom label differs from the byte offset of the next item");
            }
            3 => {
                let n = n as usize;
                chk!(s, r.eeprom.len() == n + 1 && byte_at(&r.eeprom, 0) == Some(b[0]), "C06: a trailing .byte n in eeprom does not contribute n bytes");
                let mut zeros = true;
                let mut i = 0;
                while i < n {
                    if byte_at(&r.eeprom, 1 + i) != Some(0) {
                        zeros = false;
                    }
                    i += 1;
                }
                chk!(s, zeros, "C06: eeprom reservation is not zero bytes");
            }
            4 => {
                let n = n as usize;
                chk!(s, r.eeprom.len() == n + 2, "C06: eeprom image length differs from reservation + word");
                chk!(s, byte_at(&r.eeprom, n) == Some(b[0]) && byte_at(&r.eeprom, n + 1) == Some(b[1]), "C06: word data after an eeprom reservation misplaced (source order)");
                let mut zeros = true;
                let mut i = 0;
                while i < n {
                    if byte_at(&r.eeprom, i) != Some(0) {
                        zeros = false;
                    }
                    i += 1;
                }
                chk!(s, zeros, "C06: eeprom reservation is not zero bytes");
            }
            _ => {
                let n = n as usize;
                chk!(s, r.eeprom.len() == n + 2, "C06: .byte n in eeprom does not contribute n bytes");
                chk!(s, byte_at(&r.eeprom, 0) == Some(b[0]) && byte_at(&r.eeprom, n + 1) == Some(b[1]), "C06: data around an eeprom reservation misplaced");
                let mut zeros = true;
                let mut i = 0;
                while i < n {
                    if byte_at(&r.eeprom, 1 + i) != Some(0) {
                        zeros = false;
                    }
                    i += 1;
                }
                chk!(s, zeros, "C06: eeprom reservation is not zero bytes");
            }
        }
    }
    core::mem::forget(res);
    core::mem::forget(common);
}

/// T7 — data segment extent: `.dseg [.org RAM start + off]: .byte m ; l:` ; code `.dw l`
/// l = data start + m, ram_filling = off + m   (off, m concrete per harness)
pub fn ram_extent<S: Src>(s: &mut S, off: u32, m: i64) {
    s.role(H_C02_STEP, 90);
    let common = CommonContext::new();
    let ram_start = 0x60u32;
    let dorg = if off == 0 { 0 } else { ram_start + off };
    let fill = off + m as u32;
    sv!(let o: Operand = [id("l")]);
    sv!(let p: Operand = [id("l")]);
    sv!(let i1: It = [(cp(1), Item::ReserveData(m)), (cp(2), label("l"))]);
    sv!(let i2: It = [(cp(3), Item::Data(DataDefine::Dw, o))]);
    sv!(let e1: It = []);
    sv!(let e2: It = [(cp(3), Item::Data(DataDefine::Dw, p))]);
    sv!(let segs: Segment = [seg(SegmentType::Data, dorg, i1), seg(SegmentType::Code, 0, i2)]);
    sv!(let esegs: Segment = [seg(SegmentType::Data, ram_start + off, e1), seg(SegmentType::Code, 0, e2)]);
    let (same, res) = run_via(segs, esegs, 2, fill, &common);
    #[cfg(not(kani))]
    note_result(s, &res);
    cov!(res.is_ok(), "!program assembled");
    chk!(s, same, "C12/C02: pass 1 result differs from the reference layout (data segment address, RAM usage = extent of the data segment)");
    chk!(s, res.is_ok(), "C06: a reservation in the data segment failed to build");
    if let Ok(r) = &res {
        chk!(s, word_at(&r.code, 0) == Some((ram_start + fill) as u16), "C02: data-segment label differs from RAM start + offset");
        chk!(s, r.ram_filling == fill, "C12: RAM usage is not the extent of the data segment");
    }
    core::mem::forget(res);
    core::mem::forget(common);
}

/// T8 — running offsets across interleaved segments: cseg `nop` | dseg `.byte 2` | cseg `l: .dw l`
/// -> code = nop, 1 ; ram_filling = 2
pub fn offsets_small<S: Src>(s: &mut S) {
    s.role(H_C02_STEP, 95);
    let common = CommonContext::new();
    sv!(let n0: InstructionOps = []);
    sv!(let m0: InstructionOps = []);
    sv!(let o: Operand = [id("l")]);
    sv!(let p: Operand = [id("l")]);
    sv!(let i1: It = [(cp(1), Item::Instruction(Operation::Nop, n0))]);
    sv!(let i2: It = [(cp(2), Item::ReserveData(2))]);
    sv!(let i3: It = [(cp(3), label("l")), (cp(4), Item::Data(DataDefine::Dw, o))]);
    sv!(let e1: It = [(cp(1), Item::Instruction(Operation::Nop, m0))]);
    sv!(let e2: It = []);
    sv!(let e3: It = [(cp(4), Item::Data(DataDefine::Dw, p))]);
    sv!(let segs: Segment = [seg(SegmentType::Code, 0, i1), seg(SegmentType::Data, 0, i2), seg(SegmentType::Code, 0, i3)]);
    sv!(let esegs: Segment = [seg(SegmentType::Code, 0, e1), seg(SegmentType::Data, 0x60, e2), seg(SegmentType::Code, 1, e3)]);
    let (same, res) = run_via(segs, esegs, 3, 2, &common);
    #[cfg(not(kani))]
    note_result(s, &res);
    cov!(res.is_ok(), "!program assembled");
    chk!(s, same, "C02/C12: pass 1 result differs from the reference layout (running offsets per segment kind, RAM usage)");
    chk!(s, res.is_ok(), "C02: interleaved segments failed to build");
    if let Ok(r) = &res {
        chk!(s, r.code.len() == 4 && word_at(&r.code, 0) == Some(0) && word_at(&r.code, 1) == Some(1), "C02: label in a continued code segment differs from its position");
        chk!(s, r.ram_filling == 2, "C12: RAM usage is not the extent of the data segment");
    }
    core::mem::forget(res);
    core::mem::forget(common);
}

/// T9 — `.set` inside a data segment block: dseg `.set n = v ; .byte 1` ; cseg `.dw n`  ->  v
pub fn set_dseg_small<S: Src>(s: &mut S) {
    s.role(H_C10_PASS, 45);
    let v = s.u16() as i64;
    let common = CommonContext::new();
    sv!(let o: Operand = [id("n")]);
    sv!(let p: Operand = [id("n")]);
    sv!(let i1: It = [(cp(1), Item::Set(String::from("n"), Expr::Const(v))), (cp(2), Item::ReserveData(1))]);
    sv!(let i2: It = [(cp(3), Item::Data(DataDefine::Dw, o))]);
    sv!(let e1: It = [(cp(1), Item::Set(String::from("n"), Expr::Const(v)))]);
    sv!(let e2: It = [(cp(3), Item::Data(DataDefine::Dw, p))]);
    sv!(let segs: Segment = [seg(SegmentType::Data, 0, i1), seg(SegmentType::Code, 0, i2)]);
    sv!(let esegs: Segment = [seg(SegmentType::Data, 0x60, e1), seg(SegmentType::Code, 0, e2)]);
    let (same, res) = run_via(segs, esegs, 2, 1, &common);
    #[cfg(not(kani))]
    note_result(s, &res);
    cov!(res.is_ok(), "!program assembled");
    chk!(s, same, "C02: pass 1 hands pass 2 something else than the output-producing items at their resolved addresses");
    chk!(s, res.is_ok(), "C10: .set inside a .dseg block failed to build");
    if let Ok(r) = &res {
        chk!(s, r.code.len() == 2 && word_at(&r.code, 0) == Some(v as u16), "C10: a .set written inside a .dseg block was not applied");
    }
    core::mem::forget(res);
    core::mem::forget(common);
}

/// T10 — a block placed (with `.org`) below the running end of its segment kind is an error, for
/// all three kinds: first block holds 3 units (3 nops / 3 eeprom bytes / `.byte 3`), second block `.org 1`
pub fn overlap<S: Src>(s: &mut S, kind: u8) {
    s.role(H_C02_STEP, 100 + kind as u32);
    let common = CommonContext::new();
    let res = match kind {
        0 => {
            sv!(let n0: InstructionOps = []);
            sv!(let n1: InstructionOps = []);
            sv!(let n2: InstructionOps = []);
            sv!(let n3: InstructionOps = []);
            sv!(let i1: It = [(cp(1), Item::Instruction(Operation::Nop, n0)), (cp(2), Item::Instruction(Operation::Nop, n1)), (cp(3), Item::Instruction(Operation::Nop, n2))]);
            sv!(let i2: It = [(cp(4), Item::Instruction(Operation::Nop, n3))]);
            sv!(let segs: Segment = [seg(SegmentType::Code, 0, i1), seg(SegmentType::Code, 1, i2)]);
            pass1_only(segs, &common)
        }
        1 => {
            sv!(let o1: Operand = [k(1), k(2), k(3)]);
            sv!(let o2: Operand = [k(4)]);
            sv!(let i1: It = [(cp(1), Item::Data(DataDefine::Db, o1))]);
            sv!(let i2: It = [(cp(2), Item::Data(DataDefine::Db, o2))]);
            sv!(let segs: Segment = [seg(SegmentType::Eeprom, 0, i1), seg(SegmentType::Eeprom, 1, i2)]);
            pass1_only(segs, &common)
        }
        _ => {
            sv!(let i1: It = [(cp(1), Item::ReserveData(3))]);
            sv!(let i2: It = [(cp(2), Item::ReserveData(1))]);
            sv!(let segs: Segment = [seg(SegmentType::Data, 0, i1), seg(SegmentType::Data, 0x61, i2)]);
            pass1_only(segs, &common)
        }
    };
    cov!(res.is_err(), "!overlapping block rejected");
    #[cfg(not(kani))]
    {
        s.note("kind", kind as i64);
        s.note_s("pass1", &format!("{:?}", res.as_ref().map(|_| "Ok").map_err(|e| e.to_string())));
    }
    chk!(s, res.is_err(), "C02: a block placed below the running end of its segment kind was accepted (items would overwrite / labels would not match positions)");
    core::mem::forget(res);
    core::mem::forget(common);
}
