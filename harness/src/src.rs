//! Input source abstraction: every harness body is a plain generic function over `Src`.
//! Under Kani the source is `kani::any()` (symbolic); in the native `replay` binary it is a
//! byte vector extracted from the solver's counterexample, so the *same* body is executed
//! against the natively compiled `avra_lib` before anything is reported.

pub trait Src {
    fn u8(&mut self) -> u8;
    fn u16(&mut self) -> u16;
    fn u32(&mut self) -> u32;
    fn i64(&mut self) -> i64;
    /// 64 arbitrary bytes drawn at once (no loop in the harness)
    fn arr64(&mut self) -> [u8; 64];
    fn bool(&mut self) -> bool {
        self.u8() & 1 == 1
    }
    /// precondition on the inputs drawn so far
    fn assume(&mut self, c: bool);
    /// property assertion
    fn check(&mut self, c: bool, what: &'static str);
    /// reports the "role" of the case being explored (used to key known findings and to
    /// exclude listed findings from a re-run so that *other* violations are still found)
    fn role(&mut self, harness: u32, role: u32);
    /// free-form note, only printed by the native replay
    fn note(&mut self, _k: &'static str, _v: i64) {}
    fn note_s(&mut self, _k: &'static str, _v: &str) {}
    /// a value in 0..n (n >= 1)
    fn below(&mut self, n: u8) -> u8 {
        let v = self.u8();
        self.assume(v < n);
        v
    }
}

#[cfg(kani)]
pub struct KaniSrc;

#[cfg(kani)]
impl Src for KaniSrc {
    #[inline(always)]
    fn u8(&mut self) -> u8 {
        kani::any()
    }
    #[inline(always)]
    fn u16(&mut self) -> u16 {
        kani::any()
    }
    #[inline(always)]
    fn u32(&mut self) -> u32 {
        kani::any()
    }
    #[inline(always)]
    fn i64(&mut self) -> i64 {
        kani::any()
    }
    #[inline(always)]
    fn arr64(&mut self) -> [u8; 64] {
        kani::any()
    }
    #[inline(always)]
    fn bool(&mut self) -> bool {
        // drawn as u8 so that the concrete-playback vector has one byte per call
        let v: u8 = kani::any();
        kani::assume(v < 2);
        v == 1
    }
    #[inline(always)]
    fn assume(&mut self, c: bool) {
        kani::assume(c)
    }
    #[inline(always)]
    fn check(&mut self, c: bool, what: &'static str) {
        // `what` is carried in the assertion message through the macro `chk!`; this generic
        // entry point is kept for bodies that do not need a distinct message
        let _ = what;
        assert!(c);
    }
    #[inline(always)]
    fn role(&mut self, harness: u32, role: u32) {
        kani::assume(!crate::excl::excluded(harness, role));
    }
}

/// Set when an assumption of the running harness failed (also visible after a panic: code past a
/// failed assumption runs on inputs the harness does not claim anything about).
pub static ASSUME_FAILED: std::sync::atomic::AtomicBool = std::sync::atomic::AtomicBool::new(false);

/// Native source: bytes from a counterexample (or hand-written input), little-endian.
pub struct ReplaySrc {
    pub vals: Vec<Vec<u8>>,
    pub pos: usize,
    pub failed: Vec<&'static str>,
    pub assume_failed: bool,
    pub roles: Vec<(u32, u32)>,
    pub quiet: bool,
}

impl ReplaySrc {
    pub fn new(vals: Vec<Vec<u8>>) -> Self {
        ReplaySrc { vals, pos: 0, failed: vec![], assume_failed: false, roles: vec![], quiet: false }
    }
    fn next(&mut self, n: usize) -> u64 {
        let mut out = 0u64;
        if self.pos < self.vals.len() {
            let v = &self.vals[self.pos];
            for i in 0..n.min(v.len()) {
                out |= (v[i] as u64) << (8 * i);
            }
        }
        self.pos += 1;
        out
    }
}

impl Src for ReplaySrc {
    fn u8(&mut self) -> u8 {
        self.next(1) as u8
    }
    fn u16(&mut self) -> u16 {
        self.next(2) as u16
    }
    fn u32(&mut self) -> u32 {
        self.next(4) as u32
    }
    fn i64(&mut self) -> i64 {
        self.next(8) as i64
    }
    fn arr64(&mut self) -> [u8; 64] {
        let mut out = [0u8; 64];
        if self.pos < self.vals.len() {
            let v = &self.vals[self.pos];
            for i in 0..64.min(v.len()) {
                out[i] = v[i];
            }
        }
        self.pos += 1;
        out
    }
    fn bool(&mut self) -> bool {
        self.next(1) as u8 == 1
    }
    fn assume(&mut self, c: bool) {
        if !c {
            self.assume_failed = true;
            ASSUME_FAILED.store(true, std::sync::atomic::Ordering::SeqCst);
        }
    }
    fn check(&mut self, c: bool, what: &'static str) {
        if !c && !self.assume_failed {
            self.failed.push(what);
            if !self.quiet {
                println!("CHECK-FAILED: {}", what);
            }
        }
    }
    fn role(&mut self, harness: u32, role: u32) {
        self.roles.push((harness, role));
        if !self.quiet {
            println!("ROLE: {} {} {}", harness, role, crate::roles::role_name(harness, role));
        }
    }
    fn note(&mut self, k: &'static str, v: i64) {
        if !self.quiet {
            println!("NOTE: {}={}", k, v);
        }
    }
    fn note_s(&mut self, k: &'static str, v: &str) {
        if !self.quiet {
            println!("NOTE: {}={}", k, v);
        }
    }
}

/// Property assertion with a distinct message (visible in CBMC's check list under Kani and in
/// the native replay output).
#[macro_export]
macro_rules! chk {
    ($s:expr, $c:expr, $m:literal) => {{
        let __c: bool = $c;
        #[cfg(kani)]
        {
            let _ = &$s;
            assert!(__c, $m);
        }
        #[cfg(not(kani))]
        {
            $crate::src::Src::check($s, __c, $m);
        }
    }};
}

/// Reachability witness: must come back SATISFIED under Kani (vacuity guard).
#[macro_export]
macro_rules! cov {
    ($c:expr, $m:literal) => {{
        #[cfg(kani)]
        {
            kani::cover!($c, $m);
        }
        #[cfg(not(kani))]
        {
            let _ = $c;
        }
    }};
}
