//! C12 (the comparisons): `builder::build_str` -> private `build_from_parsed`, with the parser
//! and the three passes replaced by stubs that install a *symbolic* device record and return
//! images of symbolic size.  What is decided is the limit check and the reported figures, for
//! every device record and every image size in the stated bounds.
use crate::roles::*;
use crate::src::Src;
use crate::{chk, cov};
use avra_lib::builder::pass0::BuildResultPass0;
use avra_lib::builder::pass1::BuildResultPass1;
use avra_lib::builder::pass2::BuildResultPass2;
use avra_lib::context::CommonContext;
use avra_lib::device::Device;
use avra_lib::parser::ParseResult;
use failure::Error;

static mut FLASH: u32 = 0;
static mut EEPROM: u32 = 0;
static mut RAM: u32 = 0;
static mut RAM_START: u32 = 0;
static mut CODE_LEN: usize = 0;
static mut EEPROM_LEN: usize = 0;
static mut RAM_FILL: u32 = 0;

pub fn parse_str_stub(_input: &str, common_context: &CommonContext) -> Result<ParseResult, Error> {
    let mut d = Device::new(0);
    unsafe {
        d.flash_size = FLASH;
        d.eeprom_size = EEPROM;
        d.ram_size = RAM;
        d.ram_start = RAM_START;
    }
    common_context.device.replace(Some(d));
    Ok(ParseResult::new())
}

pub fn pass0_stub(_p: ParseResult, _c: &CommonContext) -> Result<BuildResultPass0, Error> {
    Ok(BuildResultPass0::new())
}

pub fn pass1_stub(_p: BuildResultPass0, _c: &CommonContext) -> Result<BuildResultPass1, Error> {
    Ok(BuildResultPass1 { segments: vec![], ram_filling: 0, messages: vec![] })
}

fn sized_vec(n: usize) -> Vec<u8> {
    // a vector of the requested length created without a loop; its contents are never read
    let mut v: Vec<u8> = Vec::with_capacity(n);
    unsafe { v.set_len(n) };
    v
}

pub fn pass2_stub(_p: BuildResultPass1, _c: &CommonContext) -> Result<BuildResultPass2, Error> {
    unsafe {
        Ok(BuildResultPass2 {
            code_start_address: 0,
            code: sized_vec(CODE_LEN),
            eeprom_start_address: 0,
            eeprom: sized_vec(EEPROM_LEN),
            ram_filling: RAM_FILL,
            messages: vec![],
        })
    }
}

/// Bounds: flash <= 2^23 words (twice the largest default), eeprom <= 2^20, ram <= 2^24,
/// images <= 2^25 bytes.
pub fn capacity<S: Src>(s: &mut S) {
    s.role(H_C12_CAP, 0);
    let flash = s.u32();
    let eeprom = s.u32();
    let ram = s.u32();
    let ram_start = s.u16() as u32;
    let code_len = s.u32();
    let eeprom_len = s.u32();
    let ram_fill = s.u32();
    s.assume(flash <= 1 << 23 && eeprom <= 1 << 20 && ram <= 1 << 24);
    s.assume(code_len <= 1 << 25 && eeprom_len <= 1 << 25 && ram_fill <= 1 << 25);
    let fits = (code_len as u64) <= 2 * flash as u64 && (eeprom_len as u64) <= eeprom as u64 && (ram_fill as u64) <= ram as u64;
    #[cfg(kani)]
    {
        unsafe {
            FLASH = flash;
            EEPROM = eeprom;
            RAM = ram;
            RAM_START = ram_start;
            CODE_LEN = code_len as usize;
            EEPROM_LEN = eeprom_len as usize;
            RAM_FILL = ram_fill;
        }
        let r = avra_lib::builder::build_str("");
        kani::cover!(r.is_ok() && code_len as u64 == 2 * flash as u64 && flash > 0, "!flash filled exactly to capacity builds");
        kani::cover!(r.is_err() && code_len as u64 == 2 * flash as u64 + 1, "one byte over flash fails");
        kani::cover!(r.is_ok() && eeprom_len == eeprom && eeprom > 0, "eeprom filled exactly builds");
        kani::cover!(r.is_err() && eeprom_len == eeprom + 1, "one byte over eeprom fails");
        kani::cover!(r.is_ok() && ram_fill == ram && ram > 0, "ram filled exactly builds");
        kani::cover!(r.is_err() && ram_fill == ram + 1, "one byte over ram fails");
        assert!(r.is_ok() == fits, "C12: build succeeds iff all three memories fit the device");
        if let Ok(b) = &r {
            assert!(b.flash_size == flash && b.eeprom_size == eeprom && b.ram_size == ram, "C12: reported sizes are not the device's");
            assert!(b.ram_filling == ram_fill, "C12: reported RAM usage is not the data segment extent");
            assert!(b.code.len() == code_len as usize && b.eeprom.len() == eeprom_len as usize, "C12: images not passed through");
        }
        core::mem::forget(r);
    }
    #[cfg(not(kani))]
    {
        // Native replay goes through the public API on a real device (the symbolic device
        // record cannot be installed without stubs): the *relation* of each memory's usage to
        // its capacity (how far below / at / above) is carried over to ATmega48.
        let _ = ram_start;
        let rel = |used: u64, cap: u64| -> i64 {
            let d = used as i64 - cap as i64;
            d.max(-4).min(4)
        };
        let dc = rel(code_len as u64, 2 * flash as u64);
        let de = rel(eeprom_len as u64, eeprom as u64);
        let dr = rel(ram_fill as u64, ram as u64);
        // device of the table with the same "has no such memory" pattern as the counterexample
        // (name, flash words, eeprom bytes, ram bytes)
        let (dev, dflash, dee, dram): (&str, i64, i64, i64) = if eeprom == 0 && ram == 0 {
            ("ATtiny11", 512, 0, 0)
        } else if eeprom == 0 {
            ("ATtiny20", 2048, 0, 128)
        } else {
            ("ATmega48", 2048, 256, 512)
        };
        let code_words = ((2 * dflash + dc + if dc % 2 != 0 { dc.signum() } else { 0 }) / 2).max(1);
        let ee = (dee + de).max(0);
        let rm = (dram + dr).max(0);
        let _ = fits;
        // second rendering: the counterexample's *absolute* usage figures on the same real device
        // (a comparison that wraps or truncates only shows far above the capacity, where the
        // clamped relation cannot reach)
        let abs_words = ((code_len as i64 + 1) / 2).max(1);
        let mut good = true;
        for (cw, e, r_) in [(code_words, ee, rm), (abs_words, eeprom_len as i64, ram_fill as i64)] {
            let mut src = format!(".device {}\n.cseg\n.org {}\nnop\n", dev, cw - 1);
            if e > 0 {
                src.push_str(&format!(".eseg\n.byte {}\n", e));
            }
            if r_ > 0 {
                src.push_str(&format!(".dseg\n.byte {}\n", r_));
            }
            s.note_s("api_source", &src);
            let want_ok = 2 * cw <= 2 * dflash && e <= dee && r_ <= dram;
            let r = std::panic::catch_unwind(|| avra_lib::builder::build_str(&src));
            match &r {
                Err(_) => s.note_s("api_result", "PANIC"),
                Ok(Err(e)) => s.note_s("api_result", &format!("Err({})", e)),
                Ok(Ok(b)) => s.note_s(
                    "api_result",
                    &format!("Ok(code={} eeprom={} ram_filling={} sizes={}/{}/{})", b.code.len(), b.eeprom.len(), b.ram_filling, b.flash_size, b.eeprom_size, b.ram_size),
                ),
            }
            let ok_here = match &r {
                Err(_) => false,
                Ok(Err(_)) => !want_ok,
                Ok(Ok(b)) => {
                    want_ok
                        && b.flash_size as i64 == dflash
                        && b.eeprom_size as i64 == dee
                        && b.ram_size as i64 == dram
                        && b.ram_filling as i64 == r_
                }
            };
            if !ok_here {
                good = false;
            }
        }
        chk!(s, good, "C12: capacity limit / reported figures wrong on a real device for the same usage-to-capacity relation");
    }
}

/// `.device` selection through the real `Directive::parse` and the real device table:
/// the first selection installs the table row, a second selection (same part, a part with an
/// identical row, or a different part) is an error, an unknown part is an error.
pub fn device_select<S: Src>(s: &mut S) {
    let pair = s.below(4);
    crate::split!(pair, 0, 4, |p| device_select_pair(s, p));
}

fn device_select_pair<S: Src>(s: &mut S, pair: u8) {
    use avra_lib::directive::{Directive, DirectiveOps, Operand};
    use avra_lib::expr::Expr;
    use avra_lib::parser::{CodePoint, ParseContext};
    s.role(H_C12_CAP, 10 + pair as u32);
    let (first, second): (&str, &str) = match pair {
        0 => ("ATmega48", "ATmega48"),
        1 => ("ATtiny13", "ATtiny13A"),
        2 => ("ATmega48", "ATmega8"),
        _ => ("NoSuchPart", "ATmega48"),
    };
    let common = CommonContext::new();
    let ctx = ParseContext::new(
        std::path::PathBuf::new(),
        std::cell::RefCell::new(avra_lib::vmap::BTreeSet::new()),
        common,
    );
    let ops = |n: &str| DirectiveOps::OpList(vec![Operand::E(Expr::Ident(String::from(n)))]);
    let o1 = ops(first);
    let o2 = ops(second);
    let r1 = Directive::Device.parse(&o1, &ctx, CodePoint { line_num: 1, num: 2 });
    let selected = avra_lib::context::Context::get_device(&ctx.common_context);
    let r2 = Directive::Device.parse(&o2, &ctx, CodePoint { line_num: 2, num: 2 });
    cov!(r1.is_ok(), "!first selection accepted");
    #[cfg(not(kani))]
    {
        s.note_s("first", first);
        s.note_s("second", second);
        s.note_s("r1", &format!("{:?}", r1.as_ref().map(|_| ()).map_err(|e| e.to_string())));
        s.note_s("r2", &format!("{:?}", r2.as_ref().map(|_| ()).map_err(|e| e.to_string())));
        let src = format!(".device {}\n.device {}\n", first, second);
        let api = avra_lib::builder::build_str(&src);
        s.note_s("api", &format!("{:?} -> ok={}", src, api.is_ok()));
        if api.is_ok() { println!("API-CONFIRMED") } else { println!("API-NOT-CONFIRMED") }
    }
    if pair == 3 {
        chk!(s, r1.is_err(), "C12: selecting an unknown device was accepted");
    } else {
        chk!(s, r1.is_ok(), "C12: selecting a known device failed");
        chk!(s, r2.is_err(), "C12: a second device selection was accepted");
        if pair == 0 || pair == 2 {
            // ATmega48: 2048 words flash, RAM 0x100 + 512, 256 bytes EEPROM
            chk!(
                s,
                selected.flash_size == 2048 && selected.ram_start == 0x100 && selected.ram_size == 512 && selected.eeprom_size == 256,
                "C12: selected device does not carry the table row's figures"
            );
        }
    }
    core::mem::forget(r1);
    core::mem::forget(r2);
    core::mem::forget(selected);
    core::mem::forget(ctx);
    core::mem::forget(o1);
    core::mem::forget(o2);
}
