//! Mnemonic table used by the instruction harnesses.  The runner compares `OP_NAMES` with the
//! variants of `enum Operation`/`BranchT`/`SFlags` scanned from /repo's source on every run;
//! an unknown variant is a hard error (exit 2), so an added mnemonic cannot escape silently.
use crate::refisa::A;
use avra_lib::expr::Expr;
use avra_lib::instruction::operation::{BranchT, Operation, SFlags};
use avra_lib::instruction::register::Reg16;
use avra_lib::instruction::{IndexOps, InstructionOps};
use core::mem::ManuallyDrop;

// BEGIN-OP-NAMES (scanned by runner/avra_verif.py)
pub const OP_NAMES: [&str; 78] = [
    "Add", "Adc", "Sub", "Sbc", "And", "Or", "Eor", "Cpse", "Cp", "Cpc", "Mov", "Mul", // 0..12
    "Adiw", "Sbiw", // 12..14
    "Subi", "Sbci", "Andi", "Ori", "Sbr", "Cbr", "Cpi", "Ldi", // 14..22
    "Com", "Neg", "Inc", "Dec", "Push", "Pop", "Lsr", "Ror", "Asr", "Swap", // 22..32
    "Tst", "Clr", "Lsl", "Rol", "Ser", // 32..37
    "Muls", "Mulsu", "Fmul", "Fmuls", "Fmulsu", // 37..42
    "Rjmp", "Rcall", // 42..44
    "Jmp", "Call", // 44..46
    "Sbic", "Sbis", "Cbi", "Sbi", // 46..50
    "Sbrc", "Sbrs", "Bst", "Bld", // 50..54
    "Bset", "Bclr", // 54..56
    "Movw", // 56
    "Lds", "Sts", // 57..59
    "Ld", "Ldd", "St", "Std", // 59..63
    "Lpm", "Elpm", // 63..65
    "In", "Out", // 65..67
    "Ijmp", "Eijmp", "Icall", "Eicall", "Ret", "Reti", "Spm", "Break", "Nop", "Sleep", "Wdr", // 67..78
];
pub const BRANCH_NAMES: [&str; 20] = [
    "Eq", "Ne", "Cs", "Cc", "Sh", "Lo", "Mi", "Pl", "Ge", "Lt", "Hs", "Hc", "Ts", "Tc", "Vs", "Vc",
    "Ie", "Id", "Bs", "Bc",
];
pub const FLAG_NAMES: [&str; 8] = ["C", "Z", "N", "V", "S", "H", "T", "I"];
// END-OP-NAMES

pub const N_OPS: u8 = 114;

pub fn flag_at(i: u8) -> SFlags {
    match i & 7 {
        0 => SFlags::C,
        1 => SFlags::Z,
        2 => SFlags::N,
        3 => SFlags::V,
        4 => SFlags::S,
        5 => SFlags::H,
        6 => SFlags::T,
        _ => SFlags::I,
    }
}

pub fn branch_at(i: u8) -> BranchT {
    match i {
        0 => BranchT::Eq,
        1 => BranchT::Ne,
        2 => BranchT::Cs,
        3 => BranchT::Cc,
        4 => BranchT::Sh,
        5 => BranchT::Lo,
        6 => BranchT::Mi,
        7 => BranchT::Pl,
        8 => BranchT::Ge,
        9 => BranchT::Lt,
        10 => BranchT::Hs,
        11 => BranchT::Hc,
        12 => BranchT::Ts,
        13 => BranchT::Tc,
        14 => BranchT::Vs,
        15 => BranchT::Vc,
        16 => BranchT::Ie,
        17 => BranchT::Id,
        18 => BranchT::Bs,
        _ => BranchT::Bc,
    }
}

/// index -> mnemonic.  0..78 plain mnemonics, 78..98 branches, 98..106 se*, 106..114 cl*.
pub fn op_at(i: u8) -> Operation {
    match i {
        0 => Operation::Add,
        1 => Operation::Adc,
        2 => Operation::Sub,
        3 => Operation::Sbc,
        4 => Operation::And,
        5 => Operation::Or,
        6 => Operation::Eor,
        7 => Operation::Cpse,
        8 => Operation::Cp,
        9 => Operation::Cpc,
        10 => Operation::Mov,
        11 => Operation::Mul,
        12 => Operation::Adiw,
        13 => Operation::Sbiw,
        14 => Operation::Subi,
        15 => Operation::Sbci,
        16 => Operation::Andi,
        17 => Operation::Ori,
        18 => Operation::Sbr,
        19 => Operation::Cbr,
        20 => Operation::Cpi,
        21 => Operation::Ldi,
        22 => Operation::Com,
        23 => Operation::Neg,
        24 => Operation::Inc,
        25 => Operation::Dec,
        26 => Operation::Push,
        27 => Operation::Pop,
        28 => Operation::Lsr,
        29 => Operation::Ror,
        30 => Operation::Asr,
        31 => Operation::Swap,
        32 => Operation::Tst,
        33 => Operation::Clr,
        34 => Operation::Lsl,
        35 => Operation::Rol,
        36 => Operation::Ser,
        37 => Operation::Muls,
        38 => Operation::Mulsu,
        39 => Operation::Fmul,
        40 => Operation::Fmuls,
        41 => Operation::Fmulsu,
        42 => Operation::Rjmp,
        43 => Operation::Rcall,
        44 => Operation::Jmp,
        45 => Operation::Call,
        46 => Operation::Sbic,
        47 => Operation::Sbis,
        48 => Operation::Cbi,
        49 => Operation::Sbi,
        50 => Operation::Sbrc,
        51 => Operation::Sbrs,
        52 => Operation::Bst,
        53 => Operation::Bld,
        54 => Operation::Bset,
        55 => Operation::Bclr,
        56 => Operation::Movw,
        57 => Operation::Lds,
        58 => Operation::Sts,
        59 => Operation::Ld,
        60 => Operation::Ldd,
        61 => Operation::St,
        62 => Operation::Std,
        63 => Operation::Lpm,
        64 => Operation::Elpm,
        65 => Operation::In,
        66 => Operation::Out,
        67 => Operation::Ijmp,
        68 => Operation::Eijmp,
        69 => Operation::Icall,
        70 => Operation::Eicall,
        71 => Operation::Ret,
        72 => Operation::Reti,
        73 => Operation::Spm,
        74 => Operation::Break,
        75 => Operation::Nop,
        76 => Operation::Sleep,
        77 => Operation::Wdr,
        78..=97 => Operation::Br(branch_at(i - 78)),
        98..=105 => Operation::Se(flag_at(i - 98)),
        _ => Operation::Cl(flag_at(i.wrapping_sub(106))),
    }
}

/// Assembler spelling (used only by the native replay to confirm a counterexample through
/// the public `build_str` API).
pub fn op_text(i: u8) -> String {
    match i {
        0..=77 => OP_NAMES[i as usize].to_lowercase(),
        78..=97 => format!("br{}", BRANCH_NAMES[(i - 78) as usize].to_lowercase()),
        98..=105 => format!("se{}", FLAG_NAMES[(i - 98) as usize].to_lowercase()),
        _ => format!("cl{}", FLAG_NAMES[((i - 106) & 7) as usize].to_lowercase()),
    }
}

pub fn reg16(n: u8) -> Reg16 {
    match n {
        0 => Reg16::X,
        1 => Reg16::Y,
        _ => Reg16::Z,
    }
}

/// How an expression operand is written.
#[derive(Clone, Copy, PartialEq, Eq)]
pub enum KForm {
    /// literal constant
    Const,
    /// the identifier `s`, bound by the harness context to the value
    Ident,
}

pub fn to_ops(a: &A, form: KForm) -> InstructionOps {
    match a {
        A::R(n) => InstructionOps::R8(crate::ctx::reg(*n)),
        A::K(v) => match form {
            KForm::Const => InstructionOps::E(Expr::Const(*v)),
            KForm::Ident => InstructionOps::E(Expr::Ident(String::from("s"))),
        },
        A::X(r, m, q) => InstructionOps::Index(match m {
            0 => IndexOps::None(reg16(*r)),
            1 => IndexOps::PostIncrement(reg16(*r)),
            2 => IndexOps::PreDecrement(reg16(*r)),
            _ => IndexOps::PostIncrementE(reg16(*r), Expr::Const(*q)),
        }),
    }
}

pub fn arg_text(a: &A) -> String {
    match a {
        A::R(n) => format!("r{}", n),
        A::K(v) => format!("{}", v),
        A::X(r, m, q) => {
            let n = ["X", "Y", "Z"][(*r as usize).min(2)];
            match m {
                0 => n.to_string(),
                1 => format!("{}+", n),
                2 => format!("-{}", n),
                _ => format!("{}+{}", n, q),
            }
        }
    }
}

/// Operand vector living on the stack and lent out as `&Vec<InstructionOps>`:
/// CBMC does not constant-fold enum tags of heap objects, so a heap `Vec` would make symex
/// walk every variant arm of every `match` on the operands.  Never dropped, never grown.
pub struct ArgVec {
    arr: ManuallyDrop<[InstructionOps; 3]>,
    len: usize,
}

impl ArgVec {
    pub fn new(a: [InstructionOps; 3], len: usize) -> ArgVec {
        ArgVec { arr: ManuallyDrop::new(a), len }
    }
    pub fn with<R>(&mut self, f: impl FnOnce(&Vec<InstructionOps>) -> R) -> R {
        // ManuallyDrop: the lent Vec must not be freed even if the code under test panics
        // and unwinds through this frame (native replay)
        let v = ManuallyDrop::new(unsafe { Vec::from_raw_parts(self.arr.as_mut_ptr(), self.len, 3) });
        f(&v)
    }
}

pub fn filler() -> InstructionOps {
    InstructionOps::R8(avra_lib::instruction::register::Reg8::R0)
}
