//! Proof harnesses for avra-rs (Kani/CBMC), see /verif/DESIGN.md.
//! Every harness body is a generic `fn(&mut impl Src)`; `harnesses!` wraps it twice: as a
//! `#[kani::proof]` over symbolic inputs and as an entry of the native replay table.
#![allow(dead_code)]
#![allow(unused_imports)]
#![allow(unused_variables)]

pub mod ctx;
pub mod excl;
pub mod insn;
pub mod ops;
pub mod refisa;
pub mod roles;
#[cfg(not(kani))]
pub mod selftest;
pub mod src;
pub mod stubs;
pub mod c05 {
    pub const BIN_NAMES: [&str; 0] = [];
    pub const UN_NAMES: [&str; 0] = [];
    pub const FUNC_NAMES: [&str; 0] = [];
}

use src::Src;

/// further native oracle validation hooks (expression / data oracles), see selftest.rs
#[cfg(not(kani))]
pub fn selftest_more(_count: &mut u64) -> u32 {
    0
}

/// Hand-made path split without a loop (a loop would force a large global unwind bound, which
/// also applies to the recursive clone/drop/run of `Expr`): calls `$f(i)` with a *concrete* `i`
/// for the one `i` in `$lo..$hi` that equals the symbolic `$sel`.  At most 20 alternatives.
#[macro_export]
macro_rules! split {
    ($sel:expr, $lo:expr, $hi:expr, $f:expr) => {{
        let mut __f = $f;
        let __sel: u8 = $sel;
        let __lo: u8 = $lo;
        let __hi: u8 = $hi;
        $crate::split!(@one __f, __sel, __lo, __hi, 0 1 2 3 4 5 6 7 8 9 10 11 12 13 14 15 16 17 18 19);
    }};
    (@one $f:ident, $sel:ident, $lo:ident, $hi:ident, $($k:literal)*) => {
        $( if $lo + $k < $hi && $sel == $lo + $k { $f($lo + $k); } )*
    };
}

macro_rules! harnesses {
    ($( $name:ident { prop: $p:ident, feat: $f:literal, tier: $t:ident, mode: $mode:ident, unwind: $unwind:expr, caps: $c:literal }
        => |$s:ident| $body:expr ; )*) => {
        $( harnesses!(@proof $mode, $name, $f, $unwind, $s, $body); )*

        /// Native dispatch (replay binary): runs the same body on concrete inputs.
        #[cfg(not(kani))]
        pub fn run_native(name: &str, src: &mut src::ReplaySrc) -> bool {
            match name {
                $( stringify!($name) => { let $s = &mut *src; $body; true } )*
                _ => false,
            }
        }

        pub const HARNESS_NAMES: &[&str] = &[ $( stringify!($name) ),* ];
    };
    // mode full: the real code everywhere, only the environment stubs of DESIGN.md 2.3
    (@proof full, $name:ident, $f:literal, $unwind:expr, $s:ident, $body:expr) => {
        #[cfg(all(kani, feature = $f))]
        #[kani::proof]
        #[kani::unwind($unwind)]
        #[kani::stub(alloc::fmt::format, stubs::format_stub)]
        #[kani::stub(std::env::var_os, stubs::var_os_stub)]
        #[kani::stub(core::str::slice_error_fail, stubs::slice_error_fail_stub)]
        #[kani::stub(str::to_lowercase, stubs::to_lowercase_stub)]
        fn $name() {
            let mut src = src::KaniSrc;
            let $s = &mut src;
            $body;
        }
    };
    // mode leaf: additionally `Expr::run` / `Expr::clone` are replaced by their restriction to
    // leaf expressions (Const / Ident); a non-leaf expression trips an assertion.  Used where
    // the subject is the code *around* expression evaluation; the real `Expr::run` is the
    // subject of C05, and `leaf_equiv_*` show the restriction agrees with the real code on leaves.
    (@proof leaf, $name:ident, $f:literal, $unwind:expr, $s:ident, $body:expr) => {
        #[cfg(all(kani, feature = $f))]
        #[kani::proof]
        #[kani::unwind($unwind)]
        #[kani::stub(alloc::fmt::format, stubs::format_stub)]
        #[kani::stub(std::env::var_os, stubs::var_os_stub)]
        #[kani::stub(core::str::slice_error_fail, stubs::slice_error_fail_stub)]
        #[kani::stub(str::to_lowercase, stubs::to_lowercase_stub)]
        #[kani::stub(avra_lib::expr::Expr::run, stubs::run_leaf)]
        #[kani::stub(<avra_lib::expr::Expr as core::clone::Clone>::clone, stubs::clone_leaf)]
        fn $name() {
            let mut src = src::KaniSrc;
            let $s = &mut src;
            $body;
        }
    };
}

// The table below is also parsed (textually) by runner/avra_verif.py: one harness per line,
//   name { prop, feat, tier, mode, unwind, caps } => |s| body;
// caps = per-function recursion bounds handed to CBMC as --unwindset (unwinding assertions
// stay on, so a bound that cuts a feasible path fails the run instead of hiding a bug).
//   run   = avra_lib::expr::Expr::run
//   clone = <avra_lib::expr::Expr as Clone>::clone
//   drop  = drop_glue<avra_lib::expr::Expr>
harnesses! {
    // ---- C01 (+ C02-L1): legal tuples assemble to the reference words; operand shape concrete per class
    c01_enc_rr_0 { prop: C01, feat: "c01", tier: quick, mode: leaf, unwind: 3, caps: "drop=1" } => |s| insn::c01_enc(s, 0, 0, 6, false);
    c01_enc_rr_1 { prop: C01, feat: "c01", tier: quick, mode: leaf, unwind: 3, caps: "drop=1" } => |s| insn::c01_enc(s, 0, 6, 12, false);
    c01_enc_wi { prop: C01, feat: "c01", tier: quick, mode: leaf, unwind: 3, caps: "drop=1" } => |s| insn::c01_enc(s, 1, 12, 14, false);
    c01_enc_ri_0 { prop: C01, feat: "c01", tier: quick, mode: leaf, unwind: 3, caps: "drop=1" } => |s| insn::c01_enc(s, 2, 14, 17, false);
    c01_enc_ri_1 { prop: C01, feat: "c01", tier: quick, mode: leaf, unwind: 3, caps: "drop=1" } => |s| insn::c01_enc(s, 2, 17, 20, false);
    c01_enc_ri_2 { prop: C01, feat: "c01", tier: quick, mode: leaf, unwind: 3, caps: "drop=1" } => |s| insn::c01_enc(s, 2, 20, 22, false);
    c01_enc_r1_0 { prop: C01, feat: "c01", tier: quick, mode: leaf, unwind: 3, caps: "drop=1" } => |s| insn::c01_enc(s, 3, 22, 30, false);
    c01_enc_r1_1 { prop: C01, feat: "c01", tier: quick, mode: leaf, unwind: 3, caps: "drop=1" } => |s| insn::c01_enc(s, 3, 30, 37, false);
    c01_enc_mul { prop: C01, feat: "c01", tier: quick, mode: leaf, unwind: 3, caps: "drop=1" } => |s| insn::c01_enc(s, 4, 37, 42, false);
    c01_enc_rel { prop: C01, feat: "c01", tier: quick, mode: leaf, unwind: 3, caps: "drop=1" } => |s| insn::c01_enc(s, 5, 42, 44, false);
    c01_enc_long { prop: C01, feat: "c01", tier: quick, mode: leaf, unwind: 3, caps: "drop=1" } => |s| insn::c01_enc(s, 6, 44, 46, false);
    c01_enc_iobit_0 { prop: C01, feat: "c01", tier: quick, mode: leaf, unwind: 3, caps: "drop=1" } => |s| insn::c01_enc(s, 7, 46, 48, false);
    c01_enc_iobit_1 { prop: C01, feat: "c01", tier: quick, mode: leaf, unwind: 3, caps: "drop=1" } => |s| insn::c01_enc(s, 7, 48, 50, false);
    c01_enc_regbit_0 { prop: C01, feat: "c01", tier: quick, mode: leaf, unwind: 3, caps: "drop=1" } => |s| insn::c01_enc(s, 8, 50, 52, false);
    c01_enc_regbit_1 { prop: C01, feat: "c01", tier: quick, mode: leaf, unwind: 3, caps: "drop=1" } => |s| insn::c01_enc(s, 8, 52, 54, false);
    c01_enc_flag { prop: C01, feat: "c01", tier: quick, mode: leaf, unwind: 3, caps: "drop=1" } => |s| insn::c01_enc(s, 9, 54, 56, false);
    c01_enc_movw { prop: C01, feat: "c01", tier: quick, mode: leaf, unwind: 3, caps: "drop=1" } => |s| insn::c01_enc(s, 10, 56, 57, false);
    c01_enc_lds { prop: C01, feat: "c01", tier: quick, mode: leaf, unwind: 3, caps: "drop=1" } => |s| insn::c01_enc(s, 11, 57, 58, false);
    c01_enc_sts { prop: C01, feat: "c01", tier: quick, mode: leaf, unwind: 3, caps: "drop=1" } => |s| insn::c01_enc(s, 12, 58, 59, false);
    c01_enc_ld { prop: C01, feat: "c01", tier: quick, mode: leaf, unwind: 3, caps: "drop=1" } => |s| insn::c01_enc(s, 13, 59, 60, false);
    c01_enc_ldd { prop: C01, feat: "c01", tier: quick, mode: leaf, unwind: 3, caps: "drop=1" } => |s| insn::c01_enc(s, 14, 60, 61, false);
    c01_enc_st { prop: C01, feat: "c01", tier: quick, mode: leaf, unwind: 3, caps: "drop=1" } => |s| insn::c01_enc(s, 15, 61, 62, false);
    c01_enc_std { prop: C01, feat: "c01", tier: quick, mode: leaf, unwind: 3, caps: "drop=1" } => |s| insn::c01_enc(s, 16, 62, 63, false);
    c01_enc_lpm0 { prop: C01, feat: "c01", tier: quick, mode: leaf, unwind: 3, caps: "drop=1" } => |s| insn::c01_enc(s, 17, 63, 65, false);
    c01_enc_lpm2 { prop: C01, feat: "c01", tier: quick, mode: leaf, unwind: 3, caps: "drop=1" } => |s| insn::c01_enc(s, 18, 63, 65, false);
    c01_enc_in { prop: C01, feat: "c01", tier: quick, mode: leaf, unwind: 3, caps: "drop=1" } => |s| insn::c01_enc(s, 19, 65, 66, false);
    c01_enc_out { prop: C01, feat: "c01", tier: quick, mode: leaf, unwind: 3, caps: "drop=1" } => |s| insn::c01_enc(s, 20, 66, 67, false);
    c01_enc_fixed { prop: C01, feat: "c01", tier: quick, mode: leaf, unwind: 3, caps: "drop=1" } => |s| insn::c01_enc(s, 21, 67, 78, false);
    c01_enc_br_0 { prop: C01, feat: "c01", tier: quick, mode: leaf, unwind: 3, caps: "drop=1" } => |s| insn::c01_enc(s, 22, 78, 81, false);
    c01_enc_br_1 { prop: C01, feat: "c01", tier: quick, mode: leaf, unwind: 3, caps: "drop=1" } => |s| insn::c01_enc(s, 22, 81, 84, false);
    c01_enc_br_2 { prop: C01, feat: "c01", tier: quick, mode: leaf, unwind: 3, caps: "drop=1" } => |s| insn::c01_enc(s, 22, 84, 87, false);
    c01_enc_br_3 { prop: C01, feat: "c01", tier: quick, mode: leaf, unwind: 3, caps: "drop=1" } => |s| insn::c01_enc(s, 22, 87, 90, false);
    c01_enc_br_4 { prop: C01, feat: "c01", tier: quick, mode: leaf, unwind: 3, caps: "drop=1" } => |s| insn::c01_enc(s, 22, 90, 93, false);
    c01_enc_br_5 { prop: C01, feat: "c01", tier: quick, mode: leaf, unwind: 3, caps: "drop=1" } => |s| insn::c01_enc(s, 22, 93, 96, false);
    c01_enc_brb_0 { prop: C01, feat: "c01", tier: quick, mode: leaf, unwind: 3, caps: "drop=1" } => |s| insn::c01_enc(s, 23, 96, 97, false);
    c01_enc_brb_1 { prop: C01, feat: "c01", tier: quick, mode: leaf, unwind: 3, caps: "drop=1" } => |s| insn::c01_enc(s, 23, 97, 98, false);
    c01_enc_secl_0 { prop: C01, feat: "c01", tier: quick, mode: leaf, unwind: 3, caps: "drop=1" } => |s| insn::c01_enc(s, 24, 98, 106, false);
    c01_enc_secl_1 { prop: C01, feat: "c01", tier: quick, mode: leaf, unwind: 3, caps: "drop=1" } => |s| insn::c01_enc(s, 24, 106, 114, false);
    // operand written as a symbol bound by the context (thorough)
    c01_sym_wi { prop: C01, feat: "c01", tier: thorough, mode: leaf, unwind: 3, caps: "drop=1" } => |s| insn::c01_enc(s, 1, 12, 14, true);
    c01_sym_ri_0 { prop: C01, feat: "c01", tier: thorough, mode: leaf, unwind: 3, caps: "drop=1" } => |s| insn::c01_enc(s, 2, 14, 17, true);
    c01_sym_ri_1 { prop: C01, feat: "c01", tier: thorough, mode: leaf, unwind: 3, caps: "drop=1" } => |s| insn::c01_enc(s, 2, 17, 20, true);
    c01_sym_ri_2 { prop: C01, feat: "c01", tier: thorough, mode: leaf, unwind: 3, caps: "drop=1" } => |s| insn::c01_enc(s, 2, 20, 22, true);
    c01_sym_rel { prop: C01, feat: "c01", tier: thorough, mode: leaf, unwind: 3, caps: "drop=1" } => |s| insn::c01_enc(s, 5, 42, 44, true);
    c01_sym_long { prop: C01, feat: "c01", tier: thorough, mode: leaf, unwind: 3, caps: "drop=1" } => |s| insn::c01_enc(s, 6, 44, 46, true);
    c01_sym_iobit_0 { prop: C01, feat: "c01", tier: thorough, mode: leaf, unwind: 3, caps: "drop=1" } => |s| insn::c01_enc(s, 7, 46, 48, true);
    c01_sym_iobit_1 { prop: C01, feat: "c01", tier: thorough, mode: leaf, unwind: 3, caps: "drop=1" } => |s| insn::c01_enc(s, 7, 48, 50, true);
    c01_sym_regbit_0 { prop: C01, feat: "c01", tier: thorough, mode: leaf, unwind: 3, caps: "drop=1" } => |s| insn::c01_enc(s, 8, 50, 52, true);
    c01_sym_regbit_1 { prop: C01, feat: "c01", tier: thorough, mode: leaf, unwind: 3, caps: "drop=1" } => |s| insn::c01_enc(s, 8, 52, 54, true);
    c01_sym_flag { prop: C01, feat: "c01", tier: thorough, mode: leaf, unwind: 3, caps: "drop=1" } => |s| insn::c01_enc(s, 9, 54, 56, true);
    c01_sym_lds { prop: C01, feat: "c01", tier: thorough, mode: leaf, unwind: 3, caps: "drop=1" } => |s| insn::c01_enc(s, 11, 57, 58, true);
    c01_sym_sts { prop: C01, feat: "c01", tier: thorough, mode: leaf, unwind: 3, caps: "drop=1" } => |s| insn::c01_enc(s, 12, 58, 59, true);
    c01_sym_in { prop: C01, feat: "c01", tier: thorough, mode: leaf, unwind: 3, caps: "drop=1" } => |s| insn::c01_enc(s, 19, 65, 66, true);
    c01_sym_out { prop: C01, feat: "c01", tier: thorough, mode: leaf, unwind: 3, caps: "drop=1" } => |s| insn::c01_enc(s, 20, 66, 67, true);
    c01_sym_br_0 { prop: C01, feat: "c01", tier: thorough, mode: leaf, unwind: 3, caps: "drop=1" } => |s| insn::c01_enc(s, 22, 78, 81, true);
    c01_sym_br_1 { prop: C01, feat: "c01", tier: thorough, mode: leaf, unwind: 3, caps: "drop=1" } => |s| insn::c01_enc(s, 22, 81, 84, true);
    c01_sym_br_2 { prop: C01, feat: "c01", tier: thorough, mode: leaf, unwind: 3, caps: "drop=1" } => |s| insn::c01_enc(s, 22, 84, 87, true);
    c01_sym_br_3 { prop: C01, feat: "c01", tier: thorough, mode: leaf, unwind: 3, caps: "drop=1" } => |s| insn::c01_enc(s, 22, 87, 90, true);
    c01_sym_br_4 { prop: C01, feat: "c01", tier: thorough, mode: leaf, unwind: 3, caps: "drop=1" } => |s| insn::c01_enc(s, 22, 90, 93, true);
    c01_sym_br_5 { prop: C01, feat: "c01", tier: thorough, mode: leaf, unwind: 3, caps: "drop=1" } => |s| insn::c01_enc(s, 22, 93, 96, true);
    c01_sym_brb_0 { prop: C01, feat: "c01", tier: thorough, mode: leaf, unwind: 3, caps: "drop=1" } => |s| insn::c01_enc(s, 23, 96, 97, true);
    c01_sym_brb_1 { prop: C01, feat: "c01", tier: thorough, mode: leaf, unwind: 3, caps: "drop=1" } => |s| insn::c01_enc(s, 23, 97, 98, true);
    // oracle self-consistency: decode(encode(x)) == canonical(x) on every legal tuple (no /repo code);
    // quick tier validates the same natively and exhaustively (`replay --selftest`)
    c01_oracle_rr { prop: C01, feat: "c01", tier: thorough, mode: full, unwind: 3, caps: "" } => |s| insn::c01_oracle_class(s, 0);
    c01_oracle_wi { prop: C01, feat: "c01", tier: thorough, mode: full, unwind: 3, caps: "" } => |s| insn::c01_oracle_class(s, 1);
    c01_oracle_ri { prop: C01, feat: "c01", tier: thorough, mode: full, unwind: 3, caps: "" } => |s| insn::c01_oracle_class(s, 2);
    c01_oracle_r1 { prop: C01, feat: "c01", tier: thorough, mode: full, unwind: 3, caps: "" } => |s| insn::c01_oracle_class(s, 3);
    c01_oracle_mul { prop: C01, feat: "c01", tier: thorough, mode: full, unwind: 3, caps: "" } => |s| insn::c01_oracle_class(s, 4);
    c01_oracle_rel { prop: C01, feat: "c01", tier: thorough, mode: full, unwind: 3, caps: "" } => |s| insn::c01_oracle_class(s, 5);
    c01_oracle_long { prop: C01, feat: "c01", tier: thorough, mode: full, unwind: 3, caps: "" } => |s| insn::c01_oracle_class(s, 6);
    c01_oracle_iobit { prop: C01, feat: "c01", tier: thorough, mode: full, unwind: 3, caps: "" } => |s| insn::c01_oracle_class(s, 7);
    c01_oracle_regbit { prop: C01, feat: "c01", tier: thorough, mode: full, unwind: 3, caps: "" } => |s| insn::c01_oracle_class(s, 8);
    c01_oracle_flag { prop: C01, feat: "c01", tier: thorough, mode: full, unwind: 3, caps: "" } => |s| insn::c01_oracle_class(s, 9);
    c01_oracle_movw { prop: C01, feat: "c01", tier: thorough, mode: full, unwind: 3, caps: "" } => |s| insn::c01_oracle_class(s, 10);
    c01_oracle_lds { prop: C01, feat: "c01", tier: thorough, mode: full, unwind: 3, caps: "" } => |s| insn::c01_oracle_class(s, 11);
    c01_oracle_sts { prop: C01, feat: "c01", tier: thorough, mode: full, unwind: 3, caps: "" } => |s| insn::c01_oracle_class(s, 12);
    c01_oracle_ld { prop: C01, feat: "c01", tier: thorough, mode: full, unwind: 3, caps: "" } => |s| insn::c01_oracle_class(s, 13);
    c01_oracle_ldd { prop: C01, feat: "c01", tier: thorough, mode: full, unwind: 3, caps: "" } => |s| insn::c01_oracle_class(s, 14);
    c01_oracle_st { prop: C01, feat: "c01", tier: thorough, mode: full, unwind: 3, caps: "" } => |s| insn::c01_oracle_class(s, 15);
    c01_oracle_std { prop: C01, feat: "c01", tier: thorough, mode: full, unwind: 3, caps: "" } => |s| insn::c01_oracle_class(s, 16);
    c01_oracle_lpm0 { prop: C01, feat: "c01", tier: thorough, mode: full, unwind: 3, caps: "" } => |s| insn::c01_oracle_class(s, 17);
    c01_oracle_lpm2 { prop: C01, feat: "c01", tier: thorough, mode: full, unwind: 3, caps: "" } => |s| insn::c01_oracle_class(s, 18);
    c01_oracle_in { prop: C01, feat: "c01", tier: thorough, mode: full, unwind: 3, caps: "" } => |s| insn::c01_oracle_class(s, 19);
    c01_oracle_out { prop: C01, feat: "c01", tier: thorough, mode: full, unwind: 3, caps: "" } => |s| insn::c01_oracle_class(s, 20);
    c01_oracle_fixed { prop: C01, feat: "c01", tier: thorough, mode: full, unwind: 3, caps: "" } => |s| insn::c01_oracle_class(s, 21);
    c01_oracle_br { prop: C01, feat: "c01", tier: thorough, mode: full, unwind: 3, caps: "" } => |s| insn::c01_oracle_class(s, 22);
    c01_oracle_brb { prop: C01, feat: "c01", tier: thorough, mode: full, unwind: 3, caps: "" } => |s| insn::c01_oracle_class(s, 23);
    c01_oracle_secl { prop: C01, feat: "c01", tier: thorough, mode: full, unwind: 3, caps: "" } => |s| insn::c01_oracle_class(s, 24);
}
