//! Proof harnesses for avra-rs (Kani/CBMC), see /verif/DESIGN.md.
//! Every harness body is a generic `fn(&mut impl Src)`; `harnesses!` wraps it twice: as a
//! `#[kani::proof]` over symbolic inputs and as an entry of the native replay table.
#![allow(dead_code)]
#![allow(unused_imports)]
#![allow(unused_variables)]

pub mod ctx;
pub mod dirsem;
pub mod excl;
pub mod insn;
pub mod ops;
pub mod pass;
pub mod refisa;
pub mod roles;
#[cfg(not(kani))]
pub mod selftest;
pub mod src;
pub mod step;
pub mod stubs;
pub mod c05;
pub mod c06;
pub mod c07;
pub mod c08;
pub mod c10;
pub mod c12;
pub mod c13;
pub mod c16;

use src::Src;

/// further native oracle validation hooks (expression / data oracles), see selftest.rs
#[cfg(not(kani))]
pub fn selftest_more(_count: &mut u64) -> u32 {
    0
}

/// Hand-made path split without a loop (a loop would force a large global unwind bound, which
/// also applies to the recursive clone/drop/run of `Expr`): calls `$f(i)` with a *concrete* `i`
/// for the one `i` in `$lo..$hi` that equals the symbolic `$sel`.  At most 20 alternatives.
#[macro_export]
macro_rules! split {
    ($sel:expr, $lo:expr, $hi:expr, $f:expr) => {{
        let mut __f = $f;
        let __sel: u8 = $sel;
        let __lo: u8 = $lo;
        let __hi: u8 = $hi;
        $crate::split!(@one __f, __sel, __lo, __hi, 0 1 2 3 4 5 6 7 8 9 10 11 12 13 14 15 16 17 18 19);
    }};
    (@one $f:ident, $sel:ident, $lo:ident, $hi:ident, $($k:literal)*) => {
        $( if $lo + $k < $hi && $sel == $lo + $k { $f($lo + $k); } )*
    };
}

macro_rules! harnesses {
    ($( $name:ident { prop: $p:ident, feat: $f:literal, tier: $t:ident, mode: $mode:ident, unwind: $unwind:expr, caps: $c:literal }
        => |$s:ident| $body:expr ; )*) => {
        $( harnesses!(@proof $mode, $name, $f, $unwind, $s, $body); )*

        /// Native dispatch (replay binary): runs the same body on concrete inputs.
        #[cfg(not(kani))]
        pub fn run_native(name: &str, src: &mut src::ReplaySrc) -> bool {
            match name {
                $( stringify!($name) => { let $s = &mut *src; $body; true } )*
                _ => false,
            }
        }

        pub const HARNESS_NAMES: &[&str] = &[ $( stringify!($name) ),* ];
    };
    // mode full: the real code everywhere, only the environment stubs of DESIGN.md 2.3
    (@proof full, $name:ident, $f:literal, $unwind:expr, $s:ident, $body:expr) => {
        #[cfg(all(kani, feature = $f))]
        #[kani::proof]
        #[kani::unwind($unwind)]
        #[kani::stub(alloc::fmt::format, stubs::format_stub)]
        #[kani::stub(std::env::var_os, stubs::var_os_stub)]
        #[kani::stub(core::str::slice_error_fail, stubs::slice_error_fail_stub)]
        #[kani::stub(str::to_lowercase, stubs::to_lowercase_stub)]
        fn $name() {
            let mut src = src::KaniSrc;
            let $s = &mut src;
            $body;
        }
    };
    // mode hex: the HEX library entry point is replaced by the record-level reference reader
    (@proof hex, $name:ident, $f:literal, $unwind:expr, $s:ident, $body:expr) => {
        #[cfg(all(kani, feature = $f))]
        #[kani::proof]
        #[kani::unwind($unwind)]
        #[kani::stub(alloc::fmt::format, stubs::format_stub)]
        #[kani::stub(std::env::var_os, stubs::var_os_stub)]
        #[kani::stub(core::str::slice_error_fail, stubs::slice_error_fail_stub)]
        #[kani::stub(ihex::create_object_file_representation, c07::capture_stub)]
        fn $name() {
            let mut src = src::KaniSrc;
            let $s = &mut src;
            $body;
        }
    };
    // mode cap: parser and the three passes replaced (C12: only build_from_parsed is the subject)
    (@proof cap, $name:ident, $f:literal, $unwind:expr, $s:ident, $body:expr) => {
        #[cfg(all(kani, feature = $f))]
        #[kani::proof]
        #[kani::unwind($unwind)]
        #[kani::stub(alloc::fmt::format, stubs::format_stub)]
        #[kani::stub(std::env::var_os, stubs::var_os_stub)]
        #[kani::stub(core::str::slice_error_fail, stubs::slice_error_fail_stub)]
        #[kani::stub(str::to_lowercase, stubs::to_lowercase_stub)]
        #[kani::stub(avra_lib::parser::parse_str, c12::parse_str_stub)]
        #[kani::stub(avra_lib::builder::pass0::build_pass_0, c12::pass0_stub)]
        #[kani::stub(avra_lib::builder::pass1::build_pass_1, c12::pass1_stub)]
        #[kani::stub(avra_lib::builder::pass2::build_pass_2, c12::pass2_stub)]
        fn $name() {
            let mut src = src::KaniSrc;
            let $s = &mut src;
            $body;
        }
    };
    // mode pass: pass-level scenarios (step.rs): leaf restriction + `process` and `Item::clone`
    // replaced by the models documented in step.rs
    (@proof pass, $name:ident, $f:literal, $unwind:expr, $s:ident, $body:expr) => {
        #[cfg(all(kani, feature = $f))]
        #[kani::proof]
        #[kani::unwind($unwind)]
        #[kani::stub(alloc::fmt::format, stubs::format_stub)]
        #[kani::stub(std::env::var_os, stubs::var_os_stub)]
        #[kani::stub(core::str::slice_error_fail, stubs::slice_error_fail_stub)]
        #[kani::stub(str::to_lowercase, stubs::to_lowercase_stub)]
        #[kani::stub(avra_lib::expr::Expr::run, stubs::run_leaf)]
        #[kani::stub(<avra_lib::expr::Expr as core::clone::Clone>::clone, stubs::clone_leaf)]
        #[kani::stub(avra_lib::instruction::process, step::process_model)]
        #[kani::stub(<avra_lib::parser::Item as core::clone::Clone>::clone, step::item_clone_model)]
        fn $name() {
            let mut src = src::KaniSrc;
            let $s = &mut src;
            $body;
        }
    };
    // mode cond: leaf restriction + the text grammar replaced by a line-code lookup (C08 attempt)
    (@proof cond, $name:ident, $f:literal, $unwind:expr, $s:ident, $body:expr) => {
        #[cfg(all(kani, feature = $f))]
        #[kani::proof]
        #[kani::unwind($unwind)]
        #[kani::stub(alloc::fmt::format, stubs::format_stub)]
        #[kani::stub(std::env::var_os, stubs::var_os_stub)]
        #[kani::stub(core::str::slice_error_fail, stubs::slice_error_fail_stub)]
        #[kani::stub(str::to_lowercase, stubs::to_lowercase_stub)]
        #[kani::stub(avra_lib::expr::Expr::run, stubs::run_leaf)]
        #[kani::stub(<avra_lib::expr::Expr as core::clone::Clone>::clone, stubs::clone_leaf)]
        #[kani::stub(avra_lib::document::document::line, c08::line_stub)]
        #[kani::stub(avra_lib::parser::parse_file_internal, c08::no_include_stub)]
        fn $name() {
            let mut src = src::KaniSrc;
            let $s = &mut src;
            $body;
        }
    };
    // mode leaf: additionally `Expr::run` / `Expr::clone` are replaced by their restriction to
    // leaf expressions (Const / Ident); a non-leaf expression trips an assertion.  Used where
    // the subject is the code *around* expression evaluation; the real `Expr::run` is the
    // subject of C05, and `leaf_equiv_*` show the restriction agrees with the real code on leaves.
    (@proof leaf, $name:ident, $f:literal, $unwind:expr, $s:ident, $body:expr) => {
        #[cfg(all(kani, feature = $f))]
        #[kani::proof]
        #[kani::unwind($unwind)]
        #[kani::stub(alloc::fmt::format, stubs::format_stub)]
        #[kani::stub(std::env::var_os, stubs::var_os_stub)]
        #[kani::stub(core::str::slice_error_fail, stubs::slice_error_fail_stub)]
        #[kani::stub(str::to_lowercase, stubs::to_lowercase_stub)]
        #[kani::stub(avra_lib::expr::Expr::run, stubs::run_leaf)]
        #[kani::stub(<avra_lib::expr::Expr as core::clone::Clone>::clone, stubs::clone_leaf)]
        fn $name() {
            let mut src = src::KaniSrc;
            let $s = &mut src;
            $body;
        }
    };
}

// The table below is also parsed (textually) by runner/avra_verif.py: one harness per line,
//   name { prop, feat, tier, mode, unwind, caps } => |s| body;
// caps = per-function recursion bounds handed to CBMC as --unwindset (unwinding assertions
// stay on, so a bound that cuts a feasible path fails the run instead of hiding a bug).
//   run   = avra_lib::expr::Expr::run
//   clone = <avra_lib::expr::Expr as Clone>::clone
//   drop  = drop_glue<avra_lib::expr::Expr>
harnesses! {
    // ---- C01 (+ C02-L1): legal tuples assemble to the reference words; operand shape concrete per class
    c01_enc_rr_0 { prop: C01, feat: "c01", tier: quick, mode: leaf, unwind: 3, caps: "drop=1" } => |s| insn::c01_enc(s, 0, 0, 6, false);
    c01_enc_rr_1 { prop: C01, feat: "c01", tier: quick, mode: leaf, unwind: 3, caps: "drop=1" } => |s| insn::c01_enc(s, 0, 6, 12, false);
    c01_enc_wi { prop: C01, feat: "c01", tier: quick, mode: leaf, unwind: 3, caps: "drop=1" } => |s| insn::c01_enc(s, 1, 12, 14, false);
    c01_enc_ri_0 { prop: C01, feat: "c01", tier: quick, mode: leaf, unwind: 3, caps: "drop=1" } => |s| insn::c01_enc(s, 2, 14, 17, false);
    c01_enc_ri_1 { prop: C01, feat: "c01", tier: quick, mode: leaf, unwind: 3, caps: "drop=1" } => |s| insn::c01_enc(s, 2, 17, 20, false);
    c01_enc_ri_2 { prop: C01, feat: "c01", tier: quick, mode: leaf, unwind: 3, caps: "drop=1" } => |s| insn::c01_enc(s, 2, 20, 22, false);
    c01_enc_r1_0 { prop: C01, feat: "c01", tier: quick, mode: leaf, unwind: 3, caps: "drop=1" } => |s| insn::c01_enc(s, 3, 22, 30, false);
    c01_enc_r1_1 { prop: C01, feat: "c01", tier: quick, mode: leaf, unwind: 3, caps: "drop=1" } => |s| insn::c01_enc(s, 3, 30, 37, false);
    c01_enc_mul { prop: C01, feat: "c01", tier: quick, mode: leaf, unwind: 3, caps: "drop=1" } => |s| insn::c01_enc(s, 4, 37, 42, false);
    c01_enc_rel { prop: C01, feat: "c01", tier: quick, mode: leaf, unwind: 3, caps: "drop=1" } => |s| insn::c01_enc(s, 5, 42, 44, false);
    c01_enc_long { prop: C01, feat: "c01", tier: quick, mode: leaf, unwind: 3, caps: "drop=1" } => |s| insn::c01_enc(s, 6, 44, 46, false);
    c01_enc_iobit_0 { prop: C01, feat: "c01", tier: quick, mode: leaf, unwind: 3, caps: "drop=1" } => |s| insn::c01_enc(s, 7, 46, 48, false);
    c01_enc_iobit_1 { prop: C01, feat: "c01", tier: quick, mode: leaf, unwind: 3, caps: "drop=1" } => |s| insn::c01_enc(s, 7, 48, 50, false);
    c01_enc_regbit_0 { prop: C01, feat: "c01", tier: quick, mode: leaf, unwind: 3, caps: "drop=1" } => |s| insn::c01_enc(s, 8, 50, 52, false);
    c01_enc_regbit_1 { prop: C01, feat: "c01", tier: quick, mode: leaf, unwind: 3, caps: "drop=1" } => |s| insn::c01_enc(s, 8, 52, 54, false);
    c01_enc_flag { prop: C01, feat: "c01", tier: quick, mode: leaf, unwind: 3, caps: "drop=1" } => |s| insn::c01_enc(s, 9, 54, 56, false);
    c01_enc_movw { prop: C01, feat: "c01", tier: quick, mode: leaf, unwind: 3, caps: "drop=1" } => |s| insn::c01_enc(s, 10, 56, 57, false);
    c01_enc_lds { prop: C01, feat: "c01", tier: quick, mode: leaf, unwind: 3, caps: "drop=1" } => |s| insn::c01_enc(s, 11, 57, 58, false);
    c01_enc_sts { prop: C01, feat: "c01", tier: quick, mode: leaf, unwind: 3, caps: "drop=1" } => |s| insn::c01_enc(s, 12, 58, 59, false);
    c01_enc_ld { prop: C01, feat: "c01", tier: quick, mode: leaf, unwind: 3, caps: "drop=1" } => |s| insn::c01_enc(s, 13, 59, 60, false);
    c01_enc_ldd { prop: C01, feat: "c01", tier: quick, mode: leaf, unwind: 3, caps: "drop=1" } => |s| insn::c01_enc(s, 14, 60, 61, false);
    c01_enc_st { prop: C01, feat: "c01", tier: quick, mode: leaf, unwind: 3, caps: "drop=1" } => |s| insn::c01_enc(s, 15, 61, 62, false);
    c01_enc_std { prop: C01, feat: "c01", tier: quick, mode: leaf, unwind: 3, caps: "drop=1" } => |s| insn::c01_enc(s, 16, 62, 63, false);
    c01_enc_lpm0 { prop: C01, feat: "c01", tier: quick, mode: leaf, unwind: 3, caps: "drop=1" } => |s| insn::c01_enc(s, 17, 63, 65, false);
    c01_enc_lpm2 { prop: C01, feat: "c01", tier: quick, mode: leaf, unwind: 3, caps: "drop=1" } => |s| insn::c01_enc(s, 18, 63, 65, false);
    c01_enc_in { prop: C01, feat: "c01", tier: quick, mode: leaf, unwind: 3, caps: "drop=1" } => |s| insn::c01_enc(s, 19, 65, 66, false);
    c01_enc_out { prop: C01, feat: "c01", tier: quick, mode: leaf, unwind: 3, caps: "drop=1" } => |s| insn::c01_enc(s, 20, 66, 67, false);
    c01_enc_fixed { prop: C01, feat: "c01", tier: quick, mode: leaf, unwind: 3, caps: "drop=1" } => |s| insn::c01_enc(s, 21, 67, 78, false);
    c01_enc_br_0 { prop: C01, feat: "c01", tier: quick, mode: leaf, unwind: 3, caps: "drop=1" } => |s| insn::c01_enc(s, 22, 78, 81, false);
    c01_enc_br_1 { prop: C01, feat: "c01", tier: quick, mode: leaf, unwind: 3, caps: "drop=1" } => |s| insn::c01_enc(s, 22, 81, 84, false);
    c01_enc_br_2 { prop: C01, feat: "c01", tier: quick, mode: leaf, unwind: 3, caps: "drop=1" } => |s| insn::c01_enc(s, 22, 84, 87, false);
    c01_enc_br_3 { prop: C01, feat: "c01", tier: quick, mode: leaf, unwind: 3, caps: "drop=1" } => |s| insn::c01_enc(s, 22, 87, 90, false);
    c01_enc_br_4 { prop: C01, feat: "c01", tier: quick, mode: leaf, unwind: 3, caps: "drop=1" } => |s| insn::c01_enc(s, 22, 90, 93, false);
    c01_enc_br_5 { prop: C01, feat: "c01", tier: quick, mode: leaf, unwind: 3, caps: "drop=1" } => |s| insn::c01_enc(s, 22, 93, 96, false);
    c01_enc_brb_0 { prop: C01, feat: "c01", tier: quick, mode: leaf, unwind: 3, caps: "drop=1" } => |s| insn::c01_enc(s, 23, 96, 97, false);
    c01_enc_brb_1 { prop: C01, feat: "c01", tier: quick, mode: leaf, unwind: 3, caps: "drop=1" } => |s| insn::c01_enc(s, 23, 97, 98, false);
    c01_enc_secl_0 { prop: C01, feat: "c01", tier: quick, mode: leaf, unwind: 3, caps: "drop=1" } => |s| insn::c01_enc(s, 24, 98, 106, false);
    c01_enc_secl_1 { prop: C01, feat: "c01", tier: quick, mode: leaf, unwind: 3, caps: "drop=1" } => |s| insn::c01_enc(s, 24, 106, 114, false);
    // operand written as a symbol bound by the context (thorough)
    c01_sym_wi { prop: C01, feat: "c01", tier: thorough, mode: leaf, unwind: 3, caps: "drop=1" } => |s| insn::c01_enc(s, 1, 12, 14, true);
    c01_sym_ri_0 { prop: C01, feat: "c01", tier: thorough, mode: leaf, unwind: 3, caps: "drop=1" } => |s| insn::c01_enc(s, 2, 14, 17, true);
    c01_sym_ri_1 { prop: C01, feat: "c01", tier: thorough, mode: leaf, unwind: 3, caps: "drop=1" } => |s| insn::c01_enc(s, 2, 17, 20, true);
    c01_sym_ri_2 { prop: C01, feat: "c01", tier: thorough, mode: leaf, unwind: 3, caps: "drop=1" } => |s| insn::c01_enc(s, 2, 20, 22, true);
    c01_sym_rel { prop: C01, feat: "c01", tier: thorough, mode: leaf, unwind: 3, caps: "drop=1" } => |s| insn::c01_enc(s, 5, 42, 44, true);
    c01_sym_long { prop: C01, feat: "c01", tier: thorough, mode: leaf, unwind: 3, caps: "drop=1" } => |s| insn::c01_enc(s, 6, 44, 46, true);
    c01_sym_iobit_0 { prop: C01, feat: "c01", tier: thorough, mode: leaf, unwind: 3, caps: "drop=1" } => |s| insn::c01_enc(s, 7, 46, 48, true);
    c01_sym_iobit_1 { prop: C01, feat: "c01", tier: thorough, mode: leaf, unwind: 3, caps: "drop=1" } => |s| insn::c01_enc(s, 7, 48, 50, true);
    c01_sym_regbit_0 { prop: C01, feat: "c01", tier: thorough, mode: leaf, unwind: 3, caps: "drop=1" } => |s| insn::c01_enc(s, 8, 50, 52, true);
    c01_sym_regbit_1 { prop: C01, feat: "c01", tier: thorough, mode: leaf, unwind: 3, caps: "drop=1" } => |s| insn::c01_enc(s, 8, 52, 54, true);
    c01_sym_flag { prop: C01, feat: "c01", tier: thorough, mode: leaf, unwind: 3, caps: "drop=1" } => |s| insn::c01_enc(s, 9, 54, 56, true);
    c01_sym_lds { prop: C01, feat: "c01", tier: thorough, mode: leaf, unwind: 3, caps: "drop=1" } => |s| insn::c01_enc(s, 11, 57, 58, true);
    c01_sym_sts { prop: C01, feat: "c01", tier: thorough, mode: leaf, unwind: 3, caps: "drop=1" } => |s| insn::c01_enc(s, 12, 58, 59, true);
    c01_sym_in { prop: C01, feat: "c01", tier: thorough, mode: leaf, unwind: 3, caps: "drop=1" } => |s| insn::c01_enc(s, 19, 65, 66, true);
    c01_sym_out { prop: C01, feat: "c01", tier: thorough, mode: leaf, unwind: 3, caps: "drop=1" } => |s| insn::c01_enc(s, 20, 66, 67, true);
    c01_sym_br_0 { prop: C01, feat: "c01", tier: thorough, mode: leaf, unwind: 3, caps: "drop=1" } => |s| insn::c01_enc(s, 22, 78, 81, true);
    c01_sym_br_1 { prop: C01, feat: "c01", tier: thorough, mode: leaf, unwind: 3, caps: "drop=1" } => |s| insn::c01_enc(s, 22, 81, 84, true);
    c01_sym_br_2 { prop: C01, feat: "c01", tier: thorough, mode: leaf, unwind: 3, caps: "drop=1" } => |s| insn::c01_enc(s, 22, 84, 87, true);
    c01_sym_br_3 { prop: C01, feat: "c01", tier: thorough, mode: leaf, unwind: 3, caps: "drop=1" } => |s| insn::c01_enc(s, 22, 87, 90, true);
    c01_sym_br_4 { prop: C01, feat: "c01", tier: thorough, mode: leaf, unwind: 3, caps: "drop=1" } => |s| insn::c01_enc(s, 22, 90, 93, true);
    c01_sym_br_5 { prop: C01, feat: "c01", tier: thorough, mode: leaf, unwind: 3, caps: "drop=1" } => |s| insn::c01_enc(s, 22, 93, 96, true);
    c01_sym_brb_0 { prop: C01, feat: "c01", tier: thorough, mode: leaf, unwind: 3, caps: "drop=1" } => |s| insn::c01_enc(s, 23, 96, 97, true);
    c01_sym_brb_1 { prop: C01, feat: "c01", tier: thorough, mode: leaf, unwind: 3, caps: "drop=1" } => |s| insn::c01_enc(s, 23, 97, 98, true);
    // oracle self-consistency: decode(encode(x)) == canonical(x) on every legal tuple (no /repo code);
    // quick tier validates the same natively and exhaustively (`replay --selftest`)
    c01_oracle_rr { prop: C01, feat: "c01", tier: thorough, mode: full, unwind: 3, caps: "" } => |s| insn::c01_oracle_class(s, 0);
    c01_oracle_wi { prop: C01, feat: "c01", tier: thorough, mode: full, unwind: 3, caps: "" } => |s| insn::c01_oracle_class(s, 1);
    c01_oracle_ri { prop: C01, feat: "c01", tier: thorough, mode: full, unwind: 3, caps: "" } => |s| insn::c01_oracle_class(s, 2);
    c01_oracle_r1 { prop: C01, feat: "c01", tier: thorough, mode: full, unwind: 3, caps: "" } => |s| insn::c01_oracle_class(s, 3);
    c01_oracle_mul { prop: C01, feat: "c01", tier: thorough, mode: full, unwind: 3, caps: "" } => |s| insn::c01_oracle_class(s, 4);
    c01_oracle_rel { prop: C01, feat: "c01", tier: thorough, mode: full, unwind: 3, caps: "" } => |s| insn::c01_oracle_class(s, 5);
    c01_oracle_long { prop: C01, feat: "c01", tier: thorough, mode: full, unwind: 3, caps: "" } => |s| insn::c01_oracle_class(s, 6);
    c01_oracle_iobit { prop: C01, feat: "c01", tier: thorough, mode: full, unwind: 3, caps: "" } => |s| insn::c01_oracle_class(s, 7);
    c01_oracle_regbit { prop: C01, feat: "c01", tier: thorough, mode: full, unwind: 3, caps: "" } => |s| insn::c01_oracle_class(s, 8);
    c01_oracle_flag { prop: C01, feat: "c01", tier: thorough, mode: full, unwind: 3, caps: "" } => |s| insn::c01_oracle_class(s, 9);
    c01_oracle_movw { prop: C01, feat: "c01", tier: thorough, mode: full, unwind: 3, caps: "" } => |s| insn::c01_oracle_class(s, 10);
    c01_oracle_lds { prop: C01, feat: "c01", tier: thorough, mode: full, unwind: 3, caps: "" } => |s| insn::c01_oracle_class(s, 11);
    c01_oracle_sts { prop: C01, feat: "c01", tier: thorough, mode: full, unwind: 3, caps: "" } => |s| insn::c01_oracle_class(s, 12);
    c01_oracle_ld { prop: C01, feat: "c01", tier: thorough, mode: full, unwind: 3, caps: "" } => |s| insn::c01_oracle_class(s, 13);
    c01_oracle_ldd { prop: C01, feat: "c01", tier: thorough, mode: full, unwind: 3, caps: "" } => |s| insn::c01_oracle_class(s, 14);
    c01_oracle_st { prop: C01, feat: "c01", tier: thorough, mode: full, unwind: 3, caps: "" } => |s| insn::c01_oracle_class(s, 15);
    c01_oracle_std { prop: C01, feat: "c01", tier: thorough, mode: full, unwind: 3, caps: "" } => |s| insn::c01_oracle_class(s, 16);
    c01_oracle_lpm0 { prop: C01, feat: "c01", tier: thorough, mode: full, unwind: 3, caps: "" } => |s| insn::c01_oracle_class(s, 17);
    c01_oracle_lpm2 { prop: C01, feat: "c01", tier: thorough, mode: full, unwind: 3, caps: "" } => |s| insn::c01_oracle_class(s, 18);
    c01_oracle_in { prop: C01, feat: "c01", tier: thorough, mode: full, unwind: 3, caps: "" } => |s| insn::c01_oracle_class(s, 19);
    c01_oracle_out { prop: C01, feat: "c01", tier: thorough, mode: full, unwind: 3, caps: "" } => |s| insn::c01_oracle_class(s, 20);
    c01_oracle_fixed { prop: C01, feat: "c01", tier: thorough, mode: full, unwind: 3, caps: "" } => |s| insn::c01_oracle_class(s, 21);
    c01_oracle_br { prop: C01, feat: "c01", tier: thorough, mode: full, unwind: 3, caps: "" } => |s| insn::c01_oracle_class(s, 22);
    c01_oracle_brb { prop: C01, feat: "c01", tier: thorough, mode: full, unwind: 3, caps: "" } => |s| insn::c01_oracle_class(s, 23);
    c01_oracle_secl { prop: C01, feat: "c01", tier: thorough, mode: full, unwind: 3, caps: "" } => |s| insn::c01_oracle_class(s, 24);
    // ---- C03: relative branches; spelling 0 literal, 1 pc+c, 2 pc-c, 3 label
    c03_lit_rel { prop: C03, feat: "c03", tier: quick, mode: leaf, unwind: 3, caps: "drop=1" } => |s| insn::c03_rel(s, 42, 44, 0, false);
    c03_lit_br_0 { prop: C03, feat: "c03", tier: quick, mode: leaf, unwind: 3, caps: "drop=1" } => |s| insn::c03_rel(s, 78, 81, 0, false);
    c03_lit_br_1 { prop: C03, feat: "c03", tier: quick, mode: leaf, unwind: 3, caps: "drop=1" } => |s| insn::c03_rel(s, 81, 84, 0, false);
    c03_lit_br_2 { prop: C03, feat: "c03", tier: quick, mode: leaf, unwind: 3, caps: "drop=1" } => |s| insn::c03_rel(s, 84, 87, 0, false);
    c03_lit_br_3 { prop: C03, feat: "c03", tier: quick, mode: leaf, unwind: 3, caps: "drop=1" } => |s| insn::c03_rel(s, 87, 90, 0, false);
    c03_lit_br_4 { prop: C03, feat: "c03", tier: quick, mode: leaf, unwind: 3, caps: "drop=1" } => |s| insn::c03_rel(s, 90, 93, 0, false);
    c03_lit_br_5 { prop: C03, feat: "c03", tier: quick, mode: leaf, unwind: 3, caps: "drop=1" } => |s| insn::c03_rel(s, 93, 96, 0, false);
    c03_lit_brb_0 { prop: C03, feat: "c03", tier: quick, mode: leaf, unwind: 3, caps: "drop=1" } => |s| insn::c03_rel(s, 96, 97, 0, false);
    c03_lit_brb_1 { prop: C03, feat: "c03", tier: quick, mode: leaf, unwind: 3, caps: "drop=1" } => |s| insn::c03_rel(s, 97, 98, 0, false);
    c03_lab_rel { prop: C03, feat: "c03", tier: quick, mode: leaf, unwind: 3, caps: "drop=1" } => |s| insn::c03_rel(s, 42, 44, 3, false);
    c03_lab_br_0 { prop: C03, feat: "c03", tier: quick, mode: leaf, unwind: 3, caps: "drop=1" } => |s| insn::c03_rel(s, 78, 81, 3, false);
    c03_lab_br_1 { prop: C03, feat: "c03", tier: thorough, mode: leaf, unwind: 3, caps: "drop=1" } => |s| insn::c03_rel(s, 81, 84, 3, false);
    c03_lab_br_2 { prop: C03, feat: "c03", tier: thorough, mode: leaf, unwind: 3, caps: "drop=1" } => |s| insn::c03_rel(s, 84, 87, 3, false);
    c03_lab_br_3 { prop: C03, feat: "c03", tier: thorough, mode: leaf, unwind: 3, caps: "drop=1" } => |s| insn::c03_rel(s, 87, 90, 3, false);
    c03_lab_br_4 { prop: C03, feat: "c03", tier: thorough, mode: leaf, unwind: 3, caps: "drop=1" } => |s| insn::c03_rel(s, 90, 93, 3, false);
    c03_lab_br_5 { prop: C03, feat: "c03", tier: thorough, mode: leaf, unwind: 3, caps: "drop=1" } => |s| insn::c03_rel(s, 93, 96, 3, false);
    c03_lab_brb_0 { prop: C03, feat: "c03", tier: quick, mode: leaf, unwind: 3, caps: "drop=1" } => |s| insn::c03_rel(s, 96, 97, 3, false);
    c03_lab_brb_1 { prop: C03, feat: "c03", tier: thorough, mode: leaf, unwind: 3, caps: "drop=1" } => |s| insn::c03_rel(s, 97, 98, 3, false);
    c03_pc_rel { prop: C03, feat: "c03", tier: quick, mode: leaf, unwind: 3, caps: "drop=1" } => |s| insn::c03_rel(s, 42, 44, 1, false);
    c03_pc_br_0 { prop: C03, feat: "c03", tier: quick, mode: leaf, unwind: 3, caps: "drop=1" } => |s| insn::c03_rel(s, 78, 81, 1, false);
    c03_pc_br_1 { prop: C03, feat: "c03", tier: thorough, mode: leaf, unwind: 3, caps: "drop=1" } => |s| insn::c03_rel(s, 81, 84, 1, false);
    c03_pc_br_2 { prop: C03, feat: "c03", tier: thorough, mode: leaf, unwind: 3, caps: "drop=1" } => |s| insn::c03_rel(s, 84, 87, 1, false);
    c03_pc_br_3 { prop: C03, feat: "c03", tier: thorough, mode: leaf, unwind: 3, caps: "drop=1" } => |s| insn::c03_rel(s, 87, 90, 1, false);
    c03_pc_br_4 { prop: C03, feat: "c03", tier: thorough, mode: leaf, unwind: 3, caps: "drop=1" } => |s| insn::c03_rel(s, 90, 93, 1, false);
    c03_pc_br_5 { prop: C03, feat: "c03", tier: thorough, mode: leaf, unwind: 3, caps: "drop=1" } => |s| insn::c03_rel(s, 93, 96, 1, false);
    c03_pc_brb_0 { prop: C03, feat: "c03", tier: quick, mode: leaf, unwind: 3, caps: "drop=1" } => |s| insn::c03_rel(s, 96, 97, 1, false);
    c03_pc_brb_1 { prop: C03, feat: "c03", tier: thorough, mode: leaf, unwind: 3, caps: "drop=1" } => |s| insn::c03_rel(s, 97, 98, 1, false);
    c03_full_rel { prop: C03, feat: "c03", tier: thorough, mode: leaf, unwind: 3, caps: "drop=1" } => |s| insn::c03_rel(s, 42, 44, 0, true);
    c03_full_br_0 { prop: C03, feat: "c03", tier: thorough, mode: leaf, unwind: 3, caps: "drop=1" } => |s| insn::c03_rel(s, 78, 81, 0, true);
    c03_full_br_1 { prop: C03, feat: "c03", tier: thorough, mode: leaf, unwind: 3, caps: "drop=1" } => |s| insn::c03_rel(s, 81, 84, 0, true);
    c03_full_br_2 { prop: C03, feat: "c03", tier: thorough, mode: leaf, unwind: 3, caps: "drop=1" } => |s| insn::c03_rel(s, 84, 87, 0, true);
    c03_full_br_3 { prop: C03, feat: "c03", tier: thorough, mode: leaf, unwind: 3, caps: "drop=1" } => |s| insn::c03_rel(s, 87, 90, 0, true);
    c03_full_br_4 { prop: C03, feat: "c03", tier: thorough, mode: leaf, unwind: 3, caps: "drop=1" } => |s| insn::c03_rel(s, 90, 93, 0, true);
    c03_full_br_5 { prop: C03, feat: "c03", tier: thorough, mode: leaf, unwind: 3, caps: "drop=1" } => |s| insn::c03_rel(s, 93, 96, 0, true);
    c03_full_brb_0 { prop: C03, feat: "c03", tier: thorough, mode: leaf, unwind: 3, caps: "drop=1" } => |s| insn::c03_rel(s, 96, 97, 0, true);
    c03_full_brb_1 { prop: C03, feat: "c03", tier: thorough, mode: leaf, unwind: 3, caps: "drop=1" } => |s| insn::c03_rel(s, 97, 98, 0, true);
    // ---- C04: arbitrary operand vectors (any kind, count 0-3, any register, any value)
    c04_rej_add { prop: C04, feat: "c04", tier: quick, mode: leaf, unwind: 3, caps: "drop=1" } => |s| insn::c04_rej(s, 0, 1, false);
    c04_rej_adc { prop: C04, feat: "c04", tier: quick, mode: leaf, unwind: 3, caps: "drop=1" } => |s| insn::c04_rej(s, 1, 2, false);
    c04_rej_sub { prop: C04, feat: "c04", tier: quick, mode: leaf, unwind: 3, caps: "drop=1" } => |s| insn::c04_rej(s, 2, 3, false);
    c04_rej_sbc { prop: C04, feat: "c04", tier: quick, mode: leaf, unwind: 3, caps: "drop=1" } => |s| insn::c04_rej(s, 3, 4, false);
    c04_rej_and { prop: C04, feat: "c04", tier: quick, mode: leaf, unwind: 3, caps: "drop=1" } => |s| insn::c04_rej(s, 4, 5, false);
    c04_rej_or { prop: C04, feat: "c04", tier: quick, mode: leaf, unwind: 3, caps: "drop=1" } => |s| insn::c04_rej(s, 5, 6, false);
    c04_rej_eor { prop: C04, feat: "c04", tier: quick, mode: leaf, unwind: 3, caps: "drop=1" } => |s| insn::c04_rej(s, 6, 7, false);
    c04_rej_cpse { prop: C04, feat: "c04", tier: quick, mode: leaf, unwind: 3, caps: "drop=1" } => |s| insn::c04_rej(s, 7, 8, false);
    c04_rej_cp { prop: C04, feat: "c04", tier: quick, mode: leaf, unwind: 3, caps: "drop=1" } => |s| insn::c04_rej(s, 8, 9, false);
    c04_rej_cpc { prop: C04, feat: "c04", tier: quick, mode: leaf, unwind: 3, caps: "drop=1" } => |s| insn::c04_rej(s, 9, 10, false);
    c04_rej_mov { prop: C04, feat: "c04", tier: quick, mode: leaf, unwind: 3, caps: "drop=1" } => |s| insn::c04_rej(s, 10, 11, false);
    c04_rej_mul { prop: C04, feat: "c04", tier: quick, mode: leaf, unwind: 3, caps: "drop=1" } => |s| insn::c04_rej(s, 11, 12, false);
    c04_rej_adiw { prop: C04, feat: "c04", tier: quick, mode: leaf, unwind: 3, caps: "drop=1" } => |s| insn::c04_rej(s, 12, 13, false);
    c04_rej_sbiw { prop: C04, feat: "c04", tier: quick, mode: leaf, unwind: 3, caps: "drop=1" } => |s| insn::c04_rej(s, 13, 14, false);
    c04_rej_subi { prop: C04, feat: "c04", tier: quick, mode: leaf, unwind: 3, caps: "drop=1" } => |s| insn::c04_rej(s, 14, 15, false);
    c04_rej_sbci { prop: C04, feat: "c04", tier: quick, mode: leaf, unwind: 3, caps: "drop=1" } => |s| insn::c04_rej(s, 15, 16, false);
    c04_rej_andi { prop: C04, feat: "c04", tier: quick, mode: leaf, unwind: 3, caps: "drop=1" } => |s| insn::c04_rej(s, 16, 17, false);
    c04_rej_ori { prop: C04, feat: "c04", tier: quick, mode: leaf, unwind: 3, caps: "drop=1" } => |s| insn::c04_rej(s, 17, 18, false);
    c04_rej_sbr { prop: C04, feat: "c04", tier: quick, mode: leaf, unwind: 3, caps: "drop=1" } => |s| insn::c04_rej(s, 18, 19, false);
    c04_rej_cbr { prop: C04, feat: "c04", tier: quick, mode: leaf, unwind: 3, caps: "drop=1" } => |s| insn::c04_rej(s, 19, 20, false);
    c04_rej_cpi { prop: C04, feat: "c04", tier: quick, mode: leaf, unwind: 3, caps: "drop=1" } => |s| insn::c04_rej(s, 20, 21, false);
    c04_rej_ldi { prop: C04, feat: "c04", tier: quick, mode: leaf, unwind: 3, caps: "drop=1" } => |s| insn::c04_rej(s, 21, 22, false);
    c04_rej_com { prop: C04, feat: "c04", tier: quick, mode: leaf, unwind: 3, caps: "drop=1" } => |s| insn::c04_rej(s, 22, 23, false);
    c04_rej_neg { prop: C04, feat: "c04", tier: quick, mode: leaf, unwind: 3, caps: "drop=1" } => |s| insn::c04_rej(s, 23, 24, false);
    c04_rej_inc { prop: C04, feat: "c04", tier: quick, mode: leaf, unwind: 3, caps: "drop=1" } => |s| insn::c04_rej(s, 24, 25, false);
    c04_rej_dec { prop: C04, feat: "c04", tier: quick, mode: leaf, unwind: 3, caps: "drop=1" } => |s| insn::c04_rej(s, 25, 26, false);
    c04_rej_push { prop: C04, feat: "c04", tier: quick, mode: leaf, unwind: 3, caps: "drop=1" } => |s| insn::c04_rej(s, 26, 27, false);
    c04_rej_pop { prop: C04, feat: "c04", tier: quick, mode: leaf, unwind: 3, caps: "drop=1" } => |s| insn::c04_rej(s, 27, 28, false);
    c04_rej_lsr { prop: C04, feat: "c04", tier: quick, mode: leaf, unwind: 3, caps: "drop=1" } => |s| insn::c04_rej(s, 28, 29, false);
    c04_rej_ror { prop: C04, feat: "c04", tier: quick, mode: leaf, unwind: 3, caps: "drop=1" } => |s| insn::c04_rej(s, 29, 30, false);
    c04_rej_asr { prop: C04, feat: "c04", tier: quick, mode: leaf, unwind: 3, caps: "drop=1" } => |s| insn::c04_rej(s, 30, 31, false);
    c04_rej_swap { prop: C04, feat: "c04", tier: quick, mode: leaf, unwind: 3, caps: "drop=1" } => |s| insn::c04_rej(s, 31, 32, false);
    c04_rej_tst { prop: C04, feat: "c04", tier: quick, mode: leaf, unwind: 3, caps: "drop=1" } => |s| insn::c04_rej(s, 32, 33, false);
    c04_rej_clr { prop: C04, feat: "c04", tier: quick, mode: leaf, unwind: 3, caps: "drop=1" } => |s| insn::c04_rej(s, 33, 34, false);
    c04_rej_lsl { prop: C04, feat: "c04", tier: quick, mode: leaf, unwind: 3, caps: "drop=1" } => |s| insn::c04_rej(s, 34, 35, false);
    c04_rej_rol { prop: C04, feat: "c04", tier: quick, mode: leaf, unwind: 3, caps: "drop=1" } => |s| insn::c04_rej(s, 35, 36, false);
    c04_rej_ser { prop: C04, feat: "c04", tier: quick, mode: leaf, unwind: 3, caps: "drop=1" } => |s| insn::c04_rej(s, 36, 37, false);
    c04_rej_muls { prop: C04, feat: "c04", tier: quick, mode: leaf, unwind: 3, caps: "drop=1" } => |s| insn::c04_rej(s, 37, 38, false);
    c04_rej_mulsu { prop: C04, feat: "c04", tier: quick, mode: leaf, unwind: 3, caps: "drop=1" } => |s| insn::c04_rej(s, 38, 39, false);
    c04_rej_fmul { prop: C04, feat: "c04", tier: quick, mode: leaf, unwind: 3, caps: "drop=1" } => |s| insn::c04_rej(s, 39, 40, false);
    c04_rej_fmuls { prop: C04, feat: "c04", tier: quick, mode: leaf, unwind: 3, caps: "drop=1" } => |s| insn::c04_rej(s, 40, 41, false);
    c04_rej_fmulsu { prop: C04, feat: "c04", tier: quick, mode: leaf, unwind: 3, caps: "drop=1" } => |s| insn::c04_rej(s, 41, 42, false);
    c04_rej_rjmp { prop: C04, feat: "c04", tier: quick, mode: leaf, unwind: 3, caps: "drop=1" } => |s| insn::c04_rej(s, 42, 43, false);
    c04_rej_rcall { prop: C04, feat: "c04", tier: quick, mode: leaf, unwind: 3, caps: "drop=1" } => |s| insn::c04_rej(s, 43, 44, false);
    c04_rej_jmp { prop: C04, feat: "c04", tier: quick, mode: leaf, unwind: 3, caps: "drop=1" } => |s| insn::c04_rej(s, 44, 45, false);
    c04_rej_call { prop: C04, feat: "c04", tier: quick, mode: leaf, unwind: 3, caps: "drop=1" } => |s| insn::c04_rej(s, 45, 46, false);
    c04_rej_sbic { prop: C04, feat: "c04", tier: quick, mode: leaf, unwind: 3, caps: "drop=1" } => |s| insn::c04_rej(s, 46, 47, false);
    c04_rej_sbis { prop: C04, feat: "c04", tier: quick, mode: leaf, unwind: 3, caps: "drop=1" } => |s| insn::c04_rej(s, 47, 48, false);
    c04_rej_cbi { prop: C04, feat: "c04", tier: quick, mode: leaf, unwind: 3, caps: "drop=1" } => |s| insn::c04_rej(s, 48, 49, false);
    c04_rej_sbi { prop: C04, feat: "c04", tier: quick, mode: leaf, unwind: 3, caps: "drop=1" } => |s| insn::c04_rej(s, 49, 50, false);
    c04_rej_sbrc { prop: C04, feat: "c04", tier: quick, mode: leaf, unwind: 3, caps: "drop=1" } => |s| insn::c04_rej(s, 50, 51, false);
    c04_rej_sbrs { prop: C04, feat: "c04", tier: quick, mode: leaf, unwind: 3, caps: "drop=1" } => |s| insn::c04_rej(s, 51, 52, false);
    c04_rej_bst { prop: C04, feat: "c04", tier: quick, mode: leaf, unwind: 3, caps: "drop=1" } => |s| insn::c04_rej(s, 52, 53, false);
    c04_rej_bld { prop: C04, feat: "c04", tier: quick, mode: leaf, unwind: 3, caps: "drop=1" } => |s| insn::c04_rej(s, 53, 54, false);
    c04_rej_bset { prop: C04, feat: "c04", tier: quick, mode: leaf, unwind: 3, caps: "drop=1" } => |s| insn::c04_rej(s, 54, 55, false);
    c04_rej_bclr { prop: C04, feat: "c04", tier: quick, mode: leaf, unwind: 3, caps: "drop=1" } => |s| insn::c04_rej(s, 55, 56, false);
    c04_rej_movw { prop: C04, feat: "c04", tier: quick, mode: leaf, unwind: 3, caps: "drop=1" } => |s| insn::c04_rej(s, 56, 57, false);
    c04_rej_lds { prop: C04, feat: "c04", tier: quick, mode: leaf, unwind: 3, caps: "drop=1" } => |s| insn::c04_rej(s, 57, 58, false);
    c04_rej_sts { prop: C04, feat: "c04", tier: quick, mode: leaf, unwind: 3, caps: "drop=1" } => |s| insn::c04_rej(s, 58, 59, false);
    c04_rej_ld { prop: C04, feat: "c04", tier: quick, mode: leaf, unwind: 3, caps: "drop=1" } => |s| insn::c04_rej(s, 59, 60, false);
    c04_rej_ldd { prop: C04, feat: "c04", tier: quick, mode: leaf, unwind: 3, caps: "drop=1" } => |s| insn::c04_rej(s, 60, 61, false);
    c04_rej_st { prop: C04, feat: "c04", tier: quick, mode: leaf, unwind: 3, caps: "drop=1" } => |s| insn::c04_rej(s, 61, 62, false);
    c04_rej_std { prop: C04, feat: "c04", tier: quick, mode: leaf, unwind: 3, caps: "drop=1" } => |s| insn::c04_rej(s, 62, 63, false);
    c04_rej_lpm { prop: C04, feat: "c04", tier: quick, mode: leaf, unwind: 3, caps: "drop=1" } => |s| insn::c04_rej(s, 63, 64, false);
    c04_rej_elpm { prop: C04, feat: "c04", tier: quick, mode: leaf, unwind: 3, caps: "drop=1" } => |s| insn::c04_rej(s, 64, 65, false);
    c04_rej_in { prop: C04, feat: "c04", tier: quick, mode: leaf, unwind: 3, caps: "drop=1" } => |s| insn::c04_rej(s, 65, 66, false);
    c04_rej_out { prop: C04, feat: "c04", tier: quick, mode: leaf, unwind: 3, caps: "drop=1" } => |s| insn::c04_rej(s, 66, 67, false);
    c04_rej_ijmp { prop: C04, feat: "c04", tier: quick, mode: leaf, unwind: 3, caps: "drop=1" } => |s| insn::c04_rej(s, 67, 68, false);
    c04_rej_eijmp { prop: C04, feat: "c04", tier: quick, mode: leaf, unwind: 3, caps: "drop=1" } => |s| insn::c04_rej(s, 68, 69, false);
    c04_rej_icall { prop: C04, feat: "c04", tier: quick, mode: leaf, unwind: 3, caps: "drop=1" } => |s| insn::c04_rej(s, 69, 70, false);
    c04_rej_eicall { prop: C04, feat: "c04", tier: quick, mode: leaf, unwind: 3, caps: "drop=1" } => |s| insn::c04_rej(s, 70, 71, false);
    c04_rej_ret { prop: C04, feat: "c04", tier: quick, mode: leaf, unwind: 3, caps: "drop=1" } => |s| insn::c04_rej(s, 71, 72, false);
    c04_rej_reti { prop: C04, feat: "c04", tier: quick, mode: leaf, unwind: 3, caps: "drop=1" } => |s| insn::c04_rej(s, 72, 73, false);
    c04_rej_spm { prop: C04, feat: "c04", tier: quick, mode: leaf, unwind: 3, caps: "drop=1" } => |s| insn::c04_rej(s, 73, 74, false);
    c04_rej_break { prop: C04, feat: "c04", tier: quick, mode: leaf, unwind: 3, caps: "drop=1" } => |s| insn::c04_rej(s, 74, 75, false);
    c04_rej_nop { prop: C04, feat: "c04", tier: quick, mode: leaf, unwind: 3, caps: "drop=1" } => |s| insn::c04_rej(s, 75, 76, false);
    c04_rej_sleep { prop: C04, feat: "c04", tier: quick, mode: leaf, unwind: 3, caps: "drop=1" } => |s| insn::c04_rej(s, 76, 77, false);
    c04_rej_wdr { prop: C04, feat: "c04", tier: quick, mode: leaf, unwind: 3, caps: "drop=1" } => |s| insn::c04_rej(s, 77, 78, false);
    c04_rej_breq { prop: C04, feat: "c04", tier: quick, mode: leaf, unwind: 3, caps: "drop=1" } => |s| insn::c04_rej(s, 78, 79, false);
    c04_rej_brne { prop: C04, feat: "c04", tier: quick, mode: leaf, unwind: 3, caps: "drop=1" } => |s| insn::c04_rej(s, 79, 80, false);
    c04_rej_brcs { prop: C04, feat: "c04", tier: quick, mode: leaf, unwind: 3, caps: "drop=1" } => |s| insn::c04_rej(s, 80, 81, false);
    c04_rej_brcc { prop: C04, feat: "c04", tier: quick, mode: leaf, unwind: 3, caps: "drop=1" } => |s| insn::c04_rej(s, 81, 82, false);
    c04_rej_brsh { prop: C04, feat: "c04", tier: quick, mode: leaf, unwind: 3, caps: "drop=1" } => |s| insn::c04_rej(s, 82, 83, false);
    c04_rej_brlo { prop: C04, feat: "c04", tier: quick, mode: leaf, unwind: 3, caps: "drop=1" } => |s| insn::c04_rej(s, 83, 84, false);
    c04_rej_brmi { prop: C04, feat: "c04", tier: quick, mode: leaf, unwind: 3, caps: "drop=1" } => |s| insn::c04_rej(s, 84, 85, false);
    c04_rej_brpl { prop: C04, feat: "c04", tier: quick, mode: leaf, unwind: 3, caps: "drop=1" } => |s| insn::c04_rej(s, 85, 86, false);
    c04_rej_brge { prop: C04, feat: "c04", tier: quick, mode: leaf, unwind: 3, caps: "drop=1" } => |s| insn::c04_rej(s, 86, 87, false);
    c04_rej_brlt { prop: C04, feat: "c04", tier: quick, mode: leaf, unwind: 3, caps: "drop=1" } => |s| insn::c04_rej(s, 87, 88, false);
    c04_rej_brhs { prop: C04, feat: "c04", tier: quick, mode: leaf, unwind: 3, caps: "drop=1" } => |s| insn::c04_rej(s, 88, 89, false);
    c04_rej_brhc { prop: C04, feat: "c04", tier: quick, mode: leaf, unwind: 3, caps: "drop=1" } => |s| insn::c04_rej(s, 89, 90, false);
    c04_rej_brts { prop: C04, feat: "c04", tier: quick, mode: leaf, unwind: 3, caps: "drop=1" } => |s| insn::c04_rej(s, 90, 91, false);
    c04_rej_brtc { prop: C04, feat: "c04", tier: quick, mode: leaf, unwind: 3, caps: "drop=1" } => |s| insn::c04_rej(s, 91, 92, false);
    c04_rej_brvs { prop: C04, feat: "c04", tier: quick, mode: leaf, unwind: 3, caps: "drop=1" } => |s| insn::c04_rej(s, 92, 93, false);
    c04_rej_brvc { prop: C04, feat: "c04", tier: quick, mode: leaf, unwind: 3, caps: "drop=1" } => |s| insn::c04_rej(s, 93, 94, false);
    c04_rej_brie { prop: C04, feat: "c04", tier: quick, mode: leaf, unwind: 3, caps: "drop=1" } => |s| insn::c04_rej(s, 94, 95, false);
    c04_rej_brid { prop: C04, feat: "c04", tier: quick, mode: leaf, unwind: 3, caps: "drop=1" } => |s| insn::c04_rej(s, 95, 96, false);
    c04_rej_brbs { prop: C04, feat: "c04", tier: quick, mode: leaf, unwind: 3, caps: "drop=1" } => |s| insn::c04_rej(s, 96, 97, false);
    c04_rej_brbc { prop: C04, feat: "c04", tier: quick, mode: leaf, unwind: 3, caps: "drop=1" } => |s| insn::c04_rej(s, 97, 98, false);
    c04_rej_sec { prop: C04, feat: "c04", tier: quick, mode: leaf, unwind: 3, caps: "drop=1" } => |s| insn::c04_rej(s, 98, 99, false);
    c04_rej_sez { prop: C04, feat: "c04", tier: quick, mode: leaf, unwind: 3, caps: "drop=1" } => |s| insn::c04_rej(s, 99, 100, false);
    c04_rej_sen { prop: C04, feat: "c04", tier: quick, mode: leaf, unwind: 3, caps: "drop=1" } => |s| insn::c04_rej(s, 100, 101, false);
    c04_rej_sev { prop: C04, feat: "c04", tier: quick, mode: leaf, unwind: 3, caps: "drop=1" } => |s| insn::c04_rej(s, 101, 102, false);
    c04_rej_ses { prop: C04, feat: "c04", tier: quick, mode: leaf, unwind: 3, caps: "drop=1" } => |s| insn::c04_rej(s, 102, 103, false);
    c04_rej_seh { prop: C04, feat: "c04", tier: quick, mode: leaf, unwind: 3, caps: "drop=1" } => |s| insn::c04_rej(s, 103, 104, false);
    c04_rej_set { prop: C04, feat: "c04", tier: quick, mode: leaf, unwind: 3, caps: "drop=1" } => |s| insn::c04_rej(s, 104, 105, false);
    c04_rej_sei { prop: C04, feat: "c04", tier: quick, mode: leaf, unwind: 3, caps: "drop=1" } => |s| insn::c04_rej(s, 105, 106, false);
    c04_rej_clc { prop: C04, feat: "c04", tier: quick, mode: leaf, unwind: 3, caps: "drop=1" } => |s| insn::c04_rej(s, 106, 107, false);
    c04_rej_clz { prop: C04, feat: "c04", tier: quick, mode: leaf, unwind: 3, caps: "drop=1" } => |s| insn::c04_rej(s, 107, 108, false);
    c04_rej_cln { prop: C04, feat: "c04", tier: quick, mode: leaf, unwind: 3, caps: "drop=1" } => |s| insn::c04_rej(s, 108, 109, false);
    c04_rej_clv { prop: C04, feat: "c04", tier: quick, mode: leaf, unwind: 3, caps: "drop=1" } => |s| insn::c04_rej(s, 109, 110, false);
    c04_rej_cls { prop: C04, feat: "c04", tier: quick, mode: leaf, unwind: 3, caps: "drop=1" } => |s| insn::c04_rej(s, 110, 111, false);
    c04_rej_clh { prop: C04, feat: "c04", tier: quick, mode: leaf, unwind: 3, caps: "drop=1" } => |s| insn::c04_rej(s, 111, 112, false);
    c04_rej_clt { prop: C04, feat: "c04", tier: quick, mode: leaf, unwind: 3, caps: "drop=1" } => |s| insn::c04_rej(s, 112, 113, false);
    c04_rej_cli { prop: C04, feat: "c04", tier: quick, mode: leaf, unwind: 3, caps: "drop=1" } => |s| insn::c04_rej(s, 113, 114, false);
    // full 64-bit operand values (thorough)
    c04_wide_add { prop: C04, feat: "c04", tier: thorough, mode: leaf, unwind: 3, caps: "drop=1" } => |s| insn::c04_rej(s, 0, 1, true);
    c04_wide_adiw { prop: C04, feat: "c04", tier: thorough, mode: leaf, unwind: 3, caps: "drop=1" } => |s| insn::c04_rej(s, 12, 13, true);
    c04_wide_subi { prop: C04, feat: "c04", tier: thorough, mode: leaf, unwind: 3, caps: "drop=1" } => |s| insn::c04_rej(s, 14, 15, true);
    c04_wide_cbr { prop: C04, feat: "c04", tier: thorough, mode: leaf, unwind: 3, caps: "drop=1" } => |s| insn::c04_rej(s, 19, 20, true);
    c04_wide_com { prop: C04, feat: "c04", tier: thorough, mode: leaf, unwind: 3, caps: "drop=1" } => |s| insn::c04_rej(s, 22, 23, true);
    c04_wide_tst { prop: C04, feat: "c04", tier: thorough, mode: leaf, unwind: 3, caps: "drop=1" } => |s| insn::c04_rej(s, 32, 33, true);
    c04_wide_ser { prop: C04, feat: "c04", tier: thorough, mode: leaf, unwind: 3, caps: "drop=1" } => |s| insn::c04_rej(s, 36, 37, true);
    c04_wide_muls { prop: C04, feat: "c04", tier: thorough, mode: leaf, unwind: 3, caps: "drop=1" } => |s| insn::c04_rej(s, 37, 38, true);
    c04_wide_mulsu { prop: C04, feat: "c04", tier: thorough, mode: leaf, unwind: 3, caps: "drop=1" } => |s| insn::c04_rej(s, 38, 39, true);
    c04_wide_rjmp { prop: C04, feat: "c04", tier: thorough, mode: leaf, unwind: 3, caps: "drop=1" } => |s| insn::c04_rej(s, 42, 43, true);
    c04_wide_jmp { prop: C04, feat: "c04", tier: thorough, mode: leaf, unwind: 3, caps: "drop=1" } => |s| insn::c04_rej(s, 44, 45, true);
    c04_wide_sbi { prop: C04, feat: "c04", tier: thorough, mode: leaf, unwind: 3, caps: "drop=1" } => |s| insn::c04_rej(s, 49, 50, true);
    c04_wide_sbrc { prop: C04, feat: "c04", tier: thorough, mode: leaf, unwind: 3, caps: "drop=1" } => |s| insn::c04_rej(s, 50, 51, true);
    c04_wide_bset { prop: C04, feat: "c04", tier: thorough, mode: leaf, unwind: 3, caps: "drop=1" } => |s| insn::c04_rej(s, 54, 55, true);
    c04_wide_movw { prop: C04, feat: "c04", tier: thorough, mode: leaf, unwind: 3, caps: "drop=1" } => |s| insn::c04_rej(s, 56, 57, true);
    c04_wide_lds { prop: C04, feat: "c04", tier: thorough, mode: leaf, unwind: 3, caps: "drop=1" } => |s| insn::c04_rej(s, 57, 58, true);
    c04_wide_sts { prop: C04, feat: "c04", tier: thorough, mode: leaf, unwind: 3, caps: "drop=1" } => |s| insn::c04_rej(s, 58, 59, true);
    c04_wide_ld { prop: C04, feat: "c04", tier: thorough, mode: leaf, unwind: 3, caps: "drop=1" } => |s| insn::c04_rej(s, 59, 60, true);
    c04_wide_ldd { prop: C04, feat: "c04", tier: thorough, mode: leaf, unwind: 3, caps: "drop=1" } => |s| insn::c04_rej(s, 60, 61, true);
    c04_wide_st { prop: C04, feat: "c04", tier: thorough, mode: leaf, unwind: 3, caps: "drop=1" } => |s| insn::c04_rej(s, 61, 62, true);
    c04_wide_std { prop: C04, feat: "c04", tier: thorough, mode: leaf, unwind: 3, caps: "drop=1" } => |s| insn::c04_rej(s, 62, 63, true);
    c04_wide_lpm { prop: C04, feat: "c04", tier: thorough, mode: leaf, unwind: 3, caps: "drop=1" } => |s| insn::c04_rej(s, 63, 64, true);
    c04_wide_elpm { prop: C04, feat: "c04", tier: thorough, mode: leaf, unwind: 3, caps: "drop=1" } => |s| insn::c04_rej(s, 64, 65, true);
    c04_wide_in { prop: C04, feat: "c04", tier: thorough, mode: leaf, unwind: 3, caps: "drop=1" } => |s| insn::c04_rej(s, 65, 66, true);
    c04_wide_out { prop: C04, feat: "c04", tier: thorough, mode: leaf, unwind: 3, caps: "drop=1" } => |s| insn::c04_rej(s, 66, 67, true);
    c04_wide_nop { prop: C04, feat: "c04", tier: thorough, mode: leaf, unwind: 3, caps: "drop=1" } => |s| insn::c04_rej(s, 75, 76, true);
    c04_wide_breq { prop: C04, feat: "c04", tier: thorough, mode: leaf, unwind: 3, caps: "drop=1" } => |s| insn::c04_rej(s, 78, 79, true);
    c04_wide_brbs { prop: C04, feat: "c04", tier: thorough, mode: leaf, unwind: 3, caps: "drop=1" } => |s| insn::c04_rej(s, 96, 97, true);
    c04_wide_sec { prop: C04, feat: "c04", tier: thorough, mode: leaf, unwind: 3, caps: "drop=1" } => |s| insn::c04_rej(s, 98, 99, true);
    // ---- C05: the real Expr::run vs the reference evaluator (operands full 64-bit unless stated)
    c05_bin_addsub { prop: C05, feat: "c05", tier: quick, mode: full, unwind: 3, caps: "run=2,clone=1,drop=2" } => |s| c05::ev_bin(s, 0, 2, 64);
    c05_bin_bits { prop: C05, feat: "c05", tier: quick, mode: full, unwind: 3, caps: "run=2,clone=1,drop=2" } => |s| c05::ev_bin(s, 5, 8, 64);
    c05_bin_shift { prop: C05, feat: "c05", tier: quick, mode: full, unwind: 3, caps: "run=2,clone=1,drop=2" } => |s| c05::ev_bin(s, 8, 10, 64);
    c05_bin_cmp { prop: C05, feat: "c05", tier: quick, mode: full, unwind: 3, caps: "run=2,clone=1,drop=2" } => |s| c05::ev_bin(s, 10, 16, 64);
    c05_bin_logic { prop: C05, feat: "c05", tier: quick, mode: full, unwind: 3, caps: "run=2,clone=1,drop=2" } => |s| c05::ev_bin(s, 16, 18, 64);
    c05_bin_mul24 { prop: C05, feat: "c05", tier: thorough, mode: full, unwind: 3, caps: "run=2,clone=1,drop=2" } => |s| c05::ev_bin(s, 2, 3, 24);
    c05_un { prop: C05, feat: "c05", tier: quick, mode: full, unwind: 3, caps: "run=2,clone=1,drop=2" } => |s| c05::ev_un(s);
    c05_func_sel { prop: C05, feat: "c05", tier: quick, mode: full, unwind: 7, caps: "run=2,clone=1,drop=2" } => |s| c05::ev_func(s, 0, 7, 64);
    c05_func_exp2 { prop: C05, feat: "c05", tier: quick, mode: full, unwind: 7, caps: "run=2,clone=1,drop=2" } => |s| c05::ev_func(s, 7, 8, 64);
    c05_func_page_log2 { prop: C05, feat: "c05", tier: quick, mode: full, unwind: 10, caps: "run=2,clone=1,drop=2" } => |s| c05::ev_func(s, 8, 10, 8);
    c05_ident { prop: C05, feat: "c05", tier: quick, mode: full, unwind: 3, caps: "run=1,clone=1,drop=1" } => |s| c05::ev_ident(s);
    // ---- C06 (+ C02-L2): data directive conversion layer
    // ---- C07: HEX record construction
    // ---- C10: symbol tables of the real CommonContext
    c10_order { prop: C10, feat: "c10", tier: quick, mode: full, unwind: 5, caps: "clone=1,drop=1" } => |s| c10::bind_order(s);
    c10_alias_rr { prop: C10, feat: "c10", tier: quick, mode: leaf, unwind: 5, caps: "drop=1" } => |s| c10::bind_alias(s, 0, 2, 0);
    c10_alias_r1 { prop: C10, feat: "c10", tier: quick, mode: leaf, unwind: 5, caps: "drop=1" } => |s| c10::bind_alias(s, 22, 24, 3);
    c10_alias_ri { prop: C10, feat: "c10", tier: quick, mode: leaf, unwind: 5, caps: "drop=1" } => |s| c10::bind_alias(s, 21, 22, 2);
    // ---- C12: capacity comparisons and reported figures
    c12_capacity { prop: C12, feat: "c12", tier: quick, mode: cap, unwind: 4, caps: "run=1,clone=1,drop=1" } => |s| c12::capacity(s);
    // ---- C13: device gate
    // ---- C16: directive handlers never panic; symbol evaluation terminates
    c16_dir_byte { prop: C16, feat: "c16", tier: quick, mode: leaf, unwind: 4, caps: "drop=1" } => |s| c16::dir_parse(s, 0, 1);
    c16_dir_cseg { prop: C16, feat: "c16", tier: quick, mode: leaf, unwind: 4, caps: "drop=1" } => |s| c16::dir_parse(s, 1, 2);
    c16_dir_csegsize { prop: C16, feat: "c16", tier: quick, mode: leaf, unwind: 4, caps: "drop=1" } => |s| c16::dir_parse(s, 2, 3);
    c16_dir_db { prop: C16, feat: "c16", tier: quick, mode: leaf, unwind: 4, caps: "drop=1" } => |s| c16::dir_parse(s, 3, 4);
    c16_dir_def { prop: C16, feat: "c16", tier: quick, mode: leaf, unwind: 4, caps: "drop=1" } => |s| c16::dir_parse(s, 4, 5);
    c16_dir_dseg { prop: C16, feat: "c16", tier: quick, mode: leaf, unwind: 4, caps: "drop=1" } => |s| c16::dir_parse(s, 6, 7);
    c16_dir_dw { prop: C16, feat: "c16", tier: quick, mode: leaf, unwind: 4, caps: "drop=1" } => |s| c16::dir_parse(s, 7, 8);
    c16_dir_endm { prop: C16, feat: "c16", tier: quick, mode: leaf, unwind: 4, caps: "drop=1" } => |s| c16::dir_parse(s, 8, 9);
    c16_dir_endmacro { prop: C16, feat: "c16", tier: quick, mode: leaf, unwind: 4, caps: "drop=1" } => |s| c16::dir_parse(s, 9, 10);
    c16_dir_equ { prop: C16, feat: "c16", tier: quick, mode: leaf, unwind: 4, caps: "drop=1" } => |s| c16::dir_parse(s, 10, 11);
    c16_dir_eseg { prop: C16, feat: "c16", tier: quick, mode: leaf, unwind: 4, caps: "drop=1" } => |s| c16::dir_parse(s, 11, 12);
    c16_dir_exit { prop: C16, feat: "c16", tier: quick, mode: leaf, unwind: 4, caps: "drop=1" } => |s| c16::dir_parse(s, 12, 13);
    c16_dir_list { prop: C16, feat: "c16", tier: quick, mode: leaf, unwind: 4, caps: "drop=1" } => |s| c16::dir_parse(s, 15, 16);
    c16_dir_listmac { prop: C16, feat: "c16", tier: quick, mode: leaf, unwind: 4, caps: "drop=1" } => |s| c16::dir_parse(s, 16, 17);
    c16_dir_macro { prop: C16, feat: "c16", tier: quick, mode: leaf, unwind: 4, caps: "drop=1" } => |s| c16::dir_parse(s, 17, 18);
    c16_dir_nolist { prop: C16, feat: "c16", tier: quick, mode: leaf, unwind: 4, caps: "drop=1" } => |s| c16::dir_parse(s, 18, 19);
    c16_dir_org { prop: C16, feat: "c16", tier: quick, mode: leaf, unwind: 4, caps: "drop=1" } => |s| c16::dir_parse(s, 19, 20);
    c16_dir_set { prop: C16, feat: "c16", tier: quick, mode: leaf, unwind: 4, caps: "drop=1" } => |s| c16::dir_parse(s, 20, 21);
    c16_dir_define { prop: C16, feat: "c16", tier: quick, mode: leaf, unwind: 4, caps: "drop=1" } => |s| c16::dir_parse(s, 21, 22);
    c16_dir_else { prop: C16, feat: "c16", tier: quick, mode: leaf, unwind: 4, caps: "drop=1" } => |s| c16::dir_parse(s, 22, 23);
    c16_dir_elif { prop: C16, feat: "c16", tier: quick, mode: leaf, unwind: 4, caps: "drop=1" } => |s| c16::dir_parse(s, 23, 24);
    c16_dir_endif { prop: C16, feat: "c16", tier: quick, mode: leaf, unwind: 4, caps: "drop=1" } => |s| c16::dir_parse(s, 24, 25);
    c16_dir_error { prop: C16, feat: "c16", tier: quick, mode: leaf, unwind: 4, caps: "drop=1" } => |s| c16::dir_parse(s, 25, 26);
    c16_dir_if { prop: C16, feat: "c16", tier: quick, mode: leaf, unwind: 4, caps: "drop=1" } => |s| c16::dir_parse(s, 26, 27);
    c16_dir_ifdef { prop: C16, feat: "c16", tier: quick, mode: leaf, unwind: 4, caps: "drop=1" } => |s| c16::dir_parse(s, 27, 28);
    c16_dir_ifndef { prop: C16, feat: "c16", tier: quick, mode: leaf, unwind: 4, caps: "drop=1" } => |s| c16::dir_parse(s, 28, 29);
    c16_dir_message { prop: C16, feat: "c16", tier: quick, mode: leaf, unwind: 4, caps: "drop=1" } => |s| c16::dir_parse(s, 29, 30);
    c16_dir_dd { prop: C16, feat: "c16", tier: quick, mode: leaf, unwind: 4, caps: "drop=1" } => |s| c16::dir_parse(s, 30, 31);
    c16_dir_dq { prop: C16, feat: "c16", tier: quick, mode: leaf, unwind: 4, caps: "drop=1" } => |s| c16::dir_parse(s, 31, 32);
    c16_dir_undef { prop: C16, feat: "c16", tier: quick, mode: leaf, unwind: 4, caps: "drop=1" } => |s| c16::dir_parse(s, 32, 33);
    c16_dir_warning { prop: C16, feat: "c16", tier: quick, mode: leaf, unwind: 4, caps: "drop=1" } => |s| c16::dir_parse(s, 33, 34);
    c16_dir_overlap { prop: C16, feat: "c16", tier: quick, mode: leaf, unwind: 4, caps: "drop=1" } => |s| c16::dir_parse(s, 34, 35);
    c16_dir_nooverlap { prop: C16, feat: "c16", tier: quick, mode: leaf, unwind: 4, caps: "drop=1" } => |s| c16::dir_parse(s, 35, 36);
    c16_dir_pragma { prop: C16, feat: "c16", tier: quick, mode: leaf, unwind: 4, caps: "drop=1" } => |s| c16::dir_parse(s, 36, 37);
    c16_dir_custom { prop: C16, feat: "c16", tier: quick, mode: leaf, unwind: 4, caps: "drop=1" } => |s| c16::dir_parse(s, 37, 38);
    c06_data1_k { prop: C06, feat: "c06", tier: quick, mode: leaf, unwind: 18, caps: "drop=1" } => |s| c06::data_w(s, 1, 0);
    c06_data1_symb { prop: C06, feat: "c06", tier: quick, mode: leaf, unwind: 18, caps: "drop=1" } => |s| c06::data_w(s, 1, 1);
    c06_data1_symu { prop: C06, feat: "c06", tier: quick, mode: leaf, unwind: 18, caps: "drop=1" } => |s| c06::data_w(s, 1, 2);
    c06_data1_str0 { prop: C06, feat: "c06", tier: quick, mode: leaf, unwind: 18, caps: "drop=1" } => |s| c06::data_w(s, 1, 3);
    c06_data1_str1 { prop: C06, feat: "c06", tier: quick, mode: leaf, unwind: 18, caps: "drop=1" } => |s| c06::data_w(s, 1, 4);
    c06_data1_str2 { prop: C06, feat: "c06", tier: quick, mode: leaf, unwind: 18, caps: "drop=1" } => |s| c06::data_w(s, 1, 5);
    c06_data1_utf8 { prop: C06, feat: "c06", tier: quick, mode: leaf, unwind: 18, caps: "drop=1" } => |s| c06::data_w(s, 1, 6);
    c06_data2_k { prop: C06, feat: "c06", tier: quick, mode: leaf, unwind: 18, caps: "drop=1" } => |s| c06::data_w(s, 2, 0);
    c06_data2_symb { prop: C06, feat: "c06", tier: quick, mode: leaf, unwind: 18, caps: "drop=1" } => |s| c06::data_w(s, 2, 1);
    c06_data2_symu { prop: C06, feat: "c06", tier: quick, mode: leaf, unwind: 18, caps: "drop=1" } => |s| c06::data_w(s, 2, 2);
    c06_data2_str1 { prop: C06, feat: "c06", tier: quick, mode: leaf, unwind: 18, caps: "drop=1" } => |s| c06::data_w(s, 2, 4);
    c06_data4_k { prop: C06, feat: "c06", tier: quick, mode: leaf, unwind: 18, caps: "drop=1" } => |s| c06::data_w(s, 4, 0);
    c06_data4_symb { prop: C06, feat: "c06", tier: quick, mode: leaf, unwind: 18, caps: "drop=1" } => |s| c06::data_w(s, 4, 1);
    c06_data4_symu { prop: C06, feat: "c06", tier: quick, mode: leaf, unwind: 18, caps: "drop=1" } => |s| c06::data_w(s, 4, 2);
    c06_data4_str1 { prop: C06, feat: "c06", tier: quick, mode: leaf, unwind: 18, caps: "drop=1" } => |s| c06::data_w(s, 4, 4);
    c06_data8_k { prop: C06, feat: "c06", tier: quick, mode: leaf, unwind: 18, caps: "drop=1" } => |s| c06::data_w(s, 8, 0);
    c06_data8_symb { prop: C06, feat: "c06", tier: quick, mode: leaf, unwind: 18, caps: "drop=1" } => |s| c06::data_w(s, 8, 1);
    c06_data8_symu { prop: C06, feat: "c06", tier: quick, mode: leaf, unwind: 18, caps: "drop=1" } => |s| c06::data_w(s, 8, 2);
    c06_data8_str1 { prop: C06, feat: "c06", tier: quick, mode: leaf, unwind: 18, caps: "drop=1" } => |s| c06::data_w(s, 8, 4);
    c13_gate_0 { prop: C13, feat: "c13", tier: quick, mode: full, unwind: 5, caps: "" } => |s| c13::gate(s, 0, 16);
    c13_gate_1 { prop: C13, feat: "c13", tier: quick, mode: full, unwind: 5, caps: "" } => |s| c13::gate(s, 16, 32);
    c13_gate_2 { prop: C13, feat: "c13", tier: quick, mode: full, unwind: 5, caps: "" } => |s| c13::gate(s, 32, 48);
    c13_gate_3 { prop: C13, feat: "c13", tier: quick, mode: full, unwind: 5, caps: "" } => |s| c13::gate(s, 48, 64);
    c13_gate_4 { prop: C13, feat: "c13", tier: quick, mode: full, unwind: 5, caps: "" } => |s| c13::gate(s, 64, 78);
    c13_gate_5 { prop: C13, feat: "c13", tier: quick, mode: full, unwind: 5, caps: "" } => |s| c13::gate(s, 78, 98);
    c13_gate_6 { prop: C13, feat: "c13", tier: quick, mode: full, unwind: 5, caps: "" } => |s| c13::gate(s, 98, 114);
    c13_forms_ld { prop: C13, feat: "c13", tier: quick, mode: full, unwind: 5, caps: "" } => |s| c13::forms(s, 0);
    c13_forms_ldd { prop: C13, feat: "c13", tier: quick, mode: full, unwind: 5, caps: "" } => |s| c13::forms(s, 1);
    c13_forms_st { prop: C13, feat: "c13", tier: quick, mode: full, unwind: 5, caps: "" } => |s| c13::forms(s, 2);
    c13_forms_std { prop: C13, feat: "c13", tier: quick, mode: full, unwind: 5, caps: "" } => |s| c13::forms(s, 3);
    c13_forms_lpm { prop: C13, feat: "c13", tier: quick, mode: full, unwind: 5, caps: "" } => |s| c13::forms(s, 4);
    c13_forms_elpm { prop: C13, feat: "c13", tier: quick, mode: full, unwind: 5, caps: "" } => |s| c13::forms(s, 5);
    c13_forms_other { prop: C13, feat: "c13", tier: quick, mode: full, unwind: 5, caps: "" } => |s| c13::forms(s, 6);
    c10_tab_label { prop: C10, feat: "c10", tier: quick, mode: full, unwind: 5, caps: "clone=1,drop=1" } => |s| c10::bind_tables(s, 0, 2);
    c10_tab3_label { prop: C10, feat: "c10", tier: thorough, mode: full, unwind: 6, caps: "clone=1,drop=1" } => |s| c10::bind_tables(s, 0, 3);
    c10_tab_equ { prop: C10, feat: "c10", tier: quick, mode: full, unwind: 5, caps: "clone=1,drop=1" } => |s| c10::bind_tables(s, 1, 2);
    c10_tab3_equ { prop: C10, feat: "c10", tier: thorough, mode: full, unwind: 6, caps: "clone=1,drop=1" } => |s| c10::bind_tables(s, 1, 3);
    c10_tab_def { prop: C10, feat: "c10", tier: quick, mode: full, unwind: 5, caps: "clone=1,drop=1" } => |s| c10::bind_tables(s, 2, 2);
    c10_tab3_def { prop: C10, feat: "c10", tier: thorough, mode: full, unwind: 6, caps: "clone=1,drop=1" } => |s| c10::bind_tables(s, 2, 3);
    c10_tab_special { prop: C10, feat: "c10", tier: quick, mode: full, unwind: 5, caps: "clone=1,drop=1" } => |s| c10::bind_tables(s, 3, 2);
    c10_tab3_special { prop: C10, feat: "c10", tier: thorough, mode: full, unwind: 6, caps: "clone=1,drop=1" } => |s| c10::bind_tables(s, 3, 3);
    c05_leaf_const_none { prop: C05, feat: "c05", tier: quick, mode: full, unwind: 4, caps: "run=1,clone=1,drop=1" } => |s| c05::leaf_equiv(s, 0, 0);
    c05_leaf_s_none { prop: C05, feat: "c05", tier: quick, mode: full, unwind: 4, caps: "run=1,clone=1,drop=1" } => |s| c05::leaf_equiv(s, 1, 0);
    c05_leaf_s_define { prop: C05, feat: "c05", tier: quick, mode: full, unwind: 4, caps: "run=1,clone=1,drop=1" } => |s| c05::leaf_equiv(s, 1, 1);
    c05_leaf_s_equ { prop: C05, feat: "c05", tier: quick, mode: full, unwind: 4, caps: "run=1,clone=1,drop=1" } => |s| c05::leaf_equiv(s, 1, 2);
    c05_leaf_s_set { prop: C05, feat: "c05", tier: quick, mode: full, unwind: 4, caps: "run=1,clone=1,drop=1" } => |s| c05::leaf_equiv(s, 1, 3);
    c05_leaf_s_special { prop: C05, feat: "c05", tier: quick, mode: full, unwind: 4, caps: "run=1,clone=1,drop=1" } => |s| c05::leaf_equiv(s, 1, 4);
    c05_leaf_s_label { prop: C05, feat: "c05", tier: quick, mode: full, unwind: 4, caps: "run=1,clone=1,drop=1" } => |s| c05::leaf_equiv(s, 1, 5);
    c05_leaf_s_pc { prop: C05, feat: "c05", tier: quick, mode: full, unwind: 4, caps: "run=1,clone=1,drop=1" } => |s| c05::leaf_equiv(s, 1, 6);
    c05_leaf_pc_none { prop: C05, feat: "c05", tier: quick, mode: full, unwind: 4, caps: "run=1,clone=1,drop=1" } => |s| c05::leaf_equiv(s, 2, 0);
    c05_leaf_pc_define { prop: C05, feat: "c05", tier: quick, mode: full, unwind: 4, caps: "run=1,clone=1,drop=1" } => |s| c05::leaf_equiv(s, 2, 1);
    c05_leaf_pc_equ { prop: C05, feat: "c05", tier: quick, mode: full, unwind: 4, caps: "run=1,clone=1,drop=1" } => |s| c05::leaf_equiv(s, 2, 2);
    c05_leaf_pc_set { prop: C05, feat: "c05", tier: quick, mode: full, unwind: 4, caps: "run=1,clone=1,drop=1" } => |s| c05::leaf_equiv(s, 2, 3);
    c05_leaf_pc_special { prop: C05, feat: "c05", tier: quick, mode: full, unwind: 4, caps: "run=1,clone=1,drop=1" } => |s| c05::leaf_equiv(s, 2, 4);
    c05_leaf_pc_label { prop: C05, feat: "c05", tier: quick, mode: full, unwind: 4, caps: "run=1,clone=1,drop=1" } => |s| c05::leaf_equiv(s, 2, 5);
    c05_leaf_pc_pc { prop: C05, feat: "c05", tier: quick, mode: full, unwind: 4, caps: "run=1,clone=1,drop=1" } => |s| c05::leaf_equiv(s, 2, 6);
    c07_hex_0_9 { prop: C07, feat: "c07", tier: quick, mode: hex, unwind: 18, caps: "" } => |s| c07::hex_small(s, 0, 9);
    c07_hex_9_18 { prop: C07, feat: "c07", tier: quick, mode: hex, unwind: 18, caps: "" } => |s| c07::hex_small(s, 9, 18);
    c07_hex_18_26 { prop: C07, feat: "c07", tier: quick, mode: hex, unwind: 18, caps: "" } => |s| c07::hex_small(s, 18, 26);
    c07_hex_26_34 { prop: C07, feat: "c07", tier: quick, mode: hex, unwind: 18, caps: "" } => |s| c07::hex_small(s, 26, 34);
    c07_hex_34_42 { prop: C07, feat: "c07", tier: thorough, mode: hex, unwind: 18, caps: "" } => |s| c07::hex_small(s, 34, 42);
    c07_hex_42_50 { prop: C07, feat: "c07", tier: thorough, mode: hex, unwind: 18, caps: "" } => |s| c07::hex_small(s, 42, 50);
    c07_hex_50_58 { prop: C07, feat: "c07", tier: thorough, mode: hex, unwind: 18, caps: "" } => |s| c07::hex_small(s, 50, 58);
    c07_hex_58_65 { prop: C07, feat: "c07", tier: thorough, mode: hex, unwind: 18, caps: "" } => |s| c07::hex_small(s, 58, 65);
    c16_equ_self { prop: C16, feat: "c16", tier: thorough, mode: full, unwind: 4, caps: "run=140,clone=1,drop=2" } => |s| c16::equ_cycle_one(s, 3);
    c16_equ_mutual { prop: C16, feat: "c16", tier: thorough, mode: full, unwind: 4, caps: "run=140,clone=1,drop=2" } => |s| c16::equ_cycle_one(s, 7);
    c16_equ_tail { prop: C16, feat: "c16", tier: thorough, mode: full, unwind: 4, caps: "run=140,clone=1,drop=2" } => |s| c16::equ_cycle_one(s, 8);
    c16_equ_chain { prop: C16, feat: "c16", tier: quick, mode: full, unwind: 4, caps: "run=140,clone=1,drop=2" } => |s| c16::equ_cycle_one(s, 6);
    // ---- C02 (per-item agreement lemmas): L1 emitted length == info().len == ISA length; L2 data length
    c02_l1_lds { prop: C02, feat: "c02", tier: quick, mode: leaf, unwind: 3, caps: "drop=1" } => |s| insn::c01_enc(s, 11, 57, 58, false);
    c02_l1_sts { prop: C02, feat: "c02", tier: quick, mode: leaf, unwind: 3, caps: "drop=1" } => |s| insn::c01_enc(s, 12, 58, 59, false);
    c02_l1_long { prop: C02, feat: "c02", tier: quick, mode: leaf, unwind: 3, caps: "drop=1" } => |s| insn::c01_enc(s, 6, 44, 46, false);
    c02_l1_rr { prop: C02, feat: "c02", tier: quick, mode: leaf, unwind: 3, caps: "drop=1" } => |s| insn::c01_enc(s, 0, 0, 6, false);
    c02_l1_lpm { prop: C02, feat: "c02", tier: quick, mode: leaf, unwind: 3, caps: "drop=1" } => |s| insn::c01_enc(s, 17, 63, 65, false);
    c02_l1_fixed { prop: C02, feat: "c02", tier: quick, mode: leaf, unwind: 3, caps: "drop=1" } => |s| insn::c01_enc(s, 21, 67, 78, false);
    c02_l2_db_k { prop: C02, feat: "c02", tier: quick, mode: leaf, unwind: 18, caps: "drop=1" } => |s| c06::data_w(s, 1, 0);
    c02_l2_db_str { prop: C02, feat: "c02", tier: quick, mode: leaf, unwind: 18, caps: "drop=1" } => |s| c06::data_w(s, 1, 5);
    c02_l2_dw { prop: C02, feat: "c02", tier: quick, mode: leaf, unwind: 18, caps: "drop=1" } => |s| c06::data_w(s, 2, 0);
    c02_l2_dd { prop: C02, feat: "c02", tier: thorough, mode: leaf, unwind: 18, caps: "drop=1" } => |s| c06::data_w(s, 4, 0);
    c02_l2_dq { prop: C02, feat: "c02", tier: thorough, mode: leaf, unwind: 18, caps: "drop=1" } => |s| c06::data_w(s, 8, 0);
    // (pass-level step harnesses: src/step.rs is kept for the record, but its harnesses are not
    //  registered - the smallest one did not leave symbolic execution in 60 min, DESIGN.md 4/C02)
    c05_bin_mul_edge { prop: C05, feat: "c05", tier: quick, mode: full, unwind: 3, caps: "run=2,clone=1,drop=2" } => |s| c05::ev_bin(s, 2, 3, 8);
    c05_bin_div_edge { prop: C05, feat: "c05", tier: quick, mode: full, unwind: 3, caps: "run=2,clone=1,drop=2" } => |s| c05::ev_bin(s, 3, 4, 8);
    c05_bin_rem_edge { prop: C05, feat: "c05", tier: quick, mode: full, unwind: 3, caps: "run=2,clone=1,drop=2" } => |s| c05::ev_bin(s, 4, 5, 8);
    c05_func_log2_neg { prop: C05, feat: "c05", tier: thorough, mode: full, unwind: 7, caps: "run=2,clone=1,drop=2,loop:avra_lib::expr::Expr::run_nested.0=67" } => |s| c05::ev_func(s, 9, 10, 0);
    // (pass-level scenarios of step.rs are not registered: the smallest one reached 9.7 GB in the third
    //  iteration of pass 1 after 20 min even with process / Item::clone replaced by models - DESIGN.md 0)
    // ---- pass-level scenarios on stack-backed inputs (pass.rs): real build_pass_1 + build_pass_2
    p02_instr_0_at2 { prop: C02, feat: "c02", tier: thorough, mode: leaf, unwind: 6, caps: "drop=1,eq=1" } => |s| pass::instr_label(s, 0, false, 2);
    p02_instr_1_at0 { prop: X02, feat: "c02", tier: thorough, mode: leaf, unwind: 6, caps: "drop=1,eq=1" } => |s| pass::instr_label(s, 1, false, 0);
    p02_instr_1_at2 { prop: X02, feat: "c02", tier: thorough, mode: leaf, unwind: 6, caps: "drop=1,eq=1" } => |s| pass::instr_label(s, 1, false, 2);
    p02_instr_2_at1 { prop: X02, feat: "c02", tier: thorough, mode: leaf, unwind: 6, caps: "drop=1,eq=1" } => |s| pass::instr_label(s, 2, false, 1);
    p02_instr_3_at0 { prop: X02, feat: "c02", tier: thorough, mode: leaf, unwind: 6, caps: "drop=1,eq=1" } => |s| pass::instr_label(s, 3, false, 0);
    p02_instr_2_avr8l { prop: X02, feat: "c02", tier: thorough, mode: leaf, unwind: 6, caps: "drop=1,eq=1" } => |s| pass::instr_label(s, 2, true, 1);
    p02_instr_3_avr8l { prop: X02, feat: "c02", tier: thorough, mode: leaf, unwind: 6, caps: "drop=1,eq=1" } => |s| pass::instr_label(s, 3, true, 1);
    p03_pc_0_at2 { prop: C03, feat: "c03", tier: quick, mode: leaf, unwind: 6, caps: "drop=1,eq=1" } => |s| pass::pc_value(s, 0, 2);
    p03_pc_1_at1 { prop: C03, feat: "c03", tier: thorough, mode: leaf, unwind: 6, caps: "drop=1,eq=1" } => |s| pass::pc_value(s, 1, 1);
    p03_pc_2_at0 { prop: X03, feat: "c03", tier: thorough, mode: leaf, unwind: 6, caps: "drop=1,eq=1" } => |s| pass::pc_value(s, 2, 0);
    p06_db_1_at0 { prop: C06, feat: "c06", tier: thorough, mode: leaf, unwind: 6, caps: "drop=1,eq=1" } => |s| pass::layout_db(s, 1, 0);
    p06_db_1_at1 { prop: C06, feat: "c06", tier: thorough, mode: leaf, unwind: 6, caps: "drop=1,eq=1" } => |s| pass::layout_db(s, 1, 1);
    p06_db_2_at0 { prop: C06, feat: "c06", tier: thorough, mode: leaf, unwind: 6, caps: "drop=1,eq=1" } => |s| pass::layout_db(s, 2, 0);
    p06_db_2_at1 { prop: C06, feat: "c06", tier: thorough, mode: leaf, unwind: 6, caps: "drop=1,eq=1" } => |s| pass::layout_db(s, 2, 1);
    p06_db_3_at0 { prop: X06, feat: "c06", tier: thorough, mode: leaf, unwind: 6, caps: "drop=1,eq=1" } => |s| pass::layout_db(s, 3, 0);
    p06_db_3_at1 { prop: X06, feat: "c06", tier: thorough, mode: leaf, unwind: 6, caps: "drop=1,eq=1" } => |s| pass::layout_db(s, 3, 1);
    p02_eeprom_org { prop: C02, feat: "c02", tier: quick, mode: leaf, unwind: 6, caps: "drop=1,eq=1" } => |s| pass::eeprom_small(s, 0, 0);
    p02_eeprom_label { prop: C02, feat: "c02", tier: thorough, mode: leaf, unwind: 6, caps: "drop=1,eq=1" } => |s| pass::eeprom_small(s, 1, 0);
    p06_reserve_0 { prop: C06, feat: "c06", tier: thorough, mode: leaf, unwind: 6, caps: "drop=1,eq=1" } => |s| pass::eeprom_small(s, 2, 0);
    p06_reserve_1 { prop: C06, feat: "c06", tier: thorough, mode: leaf, unwind: 6, caps: "drop=1,eq=1" } => |s| pass::eeprom_small(s, 2, 1);
    p06_reserve_3 { prop: C06, feat: "c06", tier: quick, mode: leaf, unwind: 6, caps: "drop=1,eq=1" } => |s| pass::eeprom_small(s, 2, 3);
    p12_ramext_0_2 { prop: C12, feat: "c12", tier: thorough, mode: leaf, unwind: 6, caps: "drop=1,eq=1" } => |s| pass::ram_extent(s, 0, 2);
    p12_ramext_4_3 { prop: C12, feat: "c12", tier: quick, mode: leaf, unwind: 6, caps: "drop=1,eq=1" } => |s| pass::ram_extent(s, 4, 3);
    p12_ramext_1_0 { prop: C12, feat: "c12", tier: thorough, mode: leaf, unwind: 6, caps: "drop=1,eq=1" } => |s| pass::ram_extent(s, 1, 0);
    p06_reserve_tail { prop: C06, feat: "c06", tier: quick, mode: leaf, unwind: 6, caps: "drop=1,eq=1" } => |s| pass::eeprom_small(s, 3, 2);
    p06_reserve_dw { prop: C06, feat: "c06", tier: quick, mode: leaf, unwind: 6, caps: "drop=1,eq=1" } => |s| pass::eeprom_small(s, 4, 2);
    p02_overlap_code { prop: C02, feat: "c02", tier: quick, mode: leaf, unwind: 6, caps: "drop=1,eq=1" } => |s| pass::overlap(s, 0);
    p02_overlap_eeprom { prop: C02, feat: "c02", tier: quick, mode: leaf, unwind: 6, caps: "drop=1,eq=1" } => |s| pass::overlap(s, 1);
    p02_overlap_data { prop: C02, feat: "c02", tier: quick, mode: leaf, unwind: 6, caps: "drop=1,eq=1" } => |s| pass::overlap(s, 2);
    p02_offsets { prop: X02, feat: "c02", tier: thorough, mode: leaf, unwind: 6, caps: "drop=1,eq=1" } => |s| pass::offsets_small(s);
    p06_wrongseg_0 { prop: C06, feat: "c06", tier: quick, mode: leaf, unwind: 6, caps: "drop=1,eq=1" } => |s| pass::wrong_segment(s, 0);
    p06_wrongseg_1 { prop: C06, feat: "c06", tier: quick, mode: leaf, unwind: 6, caps: "drop=1,eq=1" } => |s| pass::wrong_segment(s, 1);
    p06_wrongseg_2 { prop: C06, feat: "c06", tier: quick, mode: leaf, unwind: 6, caps: "drop=1,eq=1" } => |s| pass::wrong_segment(s, 2);
    p06_wrongseg_3 { prop: C06, feat: "c06", tier: quick, mode: leaf, unwind: 6, caps: "drop=1,eq=1" } => |s| pass::wrong_segment(s, 3);
    p06_wrongseg_4 { prop: C06, feat: "c06", tier: quick, mode: leaf, unwind: 6, caps: "drop=1,eq=1" } => |s| pass::wrong_segment(s, 4);
    p06_wrongseg_5 { prop: C06, feat: "c06", tier: quick, mode: leaf, unwind: 6, caps: "drop=1,eq=1" } => |s| pass::wrong_segment(s, 5);
    p06_wrongseg_6 { prop: C06, feat: "c06", tier: quick, mode: leaf, unwind: 6, caps: "drop=1,eq=1" } => |s| pass::wrong_segment(s, 6);
    p10_set_use { prop: C10, feat: "c10", tier: thorough, mode: leaf, unwind: 6, caps: "drop=1,eq=1" } => |s| pass::set_use(s);
    p10_set_twice { prop: X10, feat: "c10", tier: thorough, mode: leaf, unwind: 6, caps: "drop=1,eq=1" } => |s| pass::set_twice(s);
    p10_set_dseg { prop: C10, feat: "c10", tier: thorough, mode: leaf, unwind: 6, caps: "drop=1,eq=1" } => |s| pass::set_dseg_small(s);
    p10_set_conflict { prop: C10, feat: "c10", tier: quick, mode: leaf, unwind: 6, caps: "drop=1,eq=1" } => |s| pass::set_conflict(s);
    p10_def { prop: X10, feat: "c10", tier: thorough, mode: leaf, unwind: 6, caps: "drop=1,eq=1" } => |s| pass::def_small(s, 0);
    p10_undef { prop: C10, feat: "c10", tier: quick, mode: leaf, unwind: 6, caps: "drop=1,eq=1" } => |s| pass::def_small(s, 1);
    p10_undef_use { prop: X10, feat: "c10", tier: thorough, mode: leaf, unwind: 6, caps: "drop=1,eq=1" } => |s| pass::def_small(s, 2);
    p10_duplabel_0 { prop: C10, feat: "c10", tier: quick, mode: leaf, unwind: 6, caps: "drop=1,eq=1" } => |s| pass::duplicate_label(s, 0);
    p10_duplabel_1 { prop: C10, feat: "c10", tier: quick, mode: leaf, unwind: 6, caps: "drop=1,eq=1" } => |s| pass::duplicate_label(s, 1);
    p10_duplabel_2 { prop: C10, feat: "c10", tier: quick, mode: leaf, unwind: 6, caps: "drop=1,eq=1" } => |s| pass::duplicate_label(s, 2);
    p10_duplabel_3 { prop: C10, feat: "c10", tier: quick, mode: leaf, unwind: 6, caps: "drop=1,eq=1" } => |s| pass::duplicate_label(s, 3);
    p13_pass2_mul { prop: X13, feat: "c13", tier: thorough, mode: leaf, unwind: 6, caps: "drop=1,eq=1" } => |s| pass::gate_in_pass2(s, 0);
    p13_pass2_ldx { prop: X13, feat: "c13", tier: thorough, mode: leaf, unwind: 6, caps: "drop=1,eq=1" } => |s| pass::gate_in_pass2(s, 1);
    p13_pass2_lpmz { prop: X13, feat: "c13", tier: thorough, mode: leaf, unwind: 6, caps: "drop=1,eq=1" } => |s| pass::gate_in_pass2(s, 2);
    // ---- C08: conditional assembly on fixed shapes with symbolic condition values (c08.rs)
    c08_shape_0 { prop: X08, feat: "c08", tier: thorough, mode: cond, unwind: 10, caps: "drop=1,dropdoc=1" } => |s| c08::cond_shape(s, 0);
    c08_shape_1 { prop: X08, feat: "c08", tier: thorough, mode: cond, unwind: 10, caps: "drop=1,dropdoc=1" } => |s| c08::cond_shape(s, 1);
    c08_shape_2 { prop: X08, feat: "c08", tier: thorough, mode: cond, unwind: 10, caps: "drop=1,dropdoc=1" } => |s| c08::cond_shape(s, 2);
    c08_shape_3 { prop: X08, feat: "c08", tier: thorough, mode: cond, unwind: 10, caps: "drop=1,dropdoc=1" } => |s| c08::cond_shape(s, 3);
    c08_shape_4 { prop: X08, feat: "c08", tier: thorough, mode: cond, unwind: 10, caps: "drop=1,dropdoc=1" } => |s| c08::cond_shape(s, 4);
    c08_shape_5 { prop: X08, feat: "c08", tier: thorough, mode: cond, unwind: 10, caps: "drop=1,dropdoc=1" } => |s| c08::cond_shape(s, 5);
    c08_shape_6 { prop: X08, feat: "c08", tier: thorough, mode: cond, unwind: 10, caps: "drop=1,dropdoc=1" } => |s| c08::cond_shape(s, 6);
    c08_shape_7 { prop: X08, feat: "c08", tier: thorough, mode: cond, unwind: 10, caps: "drop=1,dropdoc=1" } => |s| c08::cond_shape(s, 7);
    // ---- directive-level semantics (Directive::parse on the parse context's segment list)
    c02_dir_org_lit { prop: C02, feat: "c02", tier: quick, mode: leaf, unwind: 4, caps: "drop=1" } => |s| dirsem::dir_org(s, 0);
    c02_dir_org_sym { prop: C02, feat: "c02", tier: quick, mode: leaf, unwind: 4, caps: "drop=1" } => |s| dirsem::dir_org(s, 1);
    c02_dir_segment { prop: C02, feat: "c02", tier: quick, mode: leaf, unwind: 4, caps: "drop=1" } => |s| dirsem::dir_segment(s);
    c06_dir_byte_lit { prop: C06, feat: "c06", tier: quick, mode: leaf, unwind: 4, caps: "drop=1" } => |s| dirsem::dir_byte(s, 0);
    c06_dir_byte_sym { prop: C06, feat: "c06", tier: quick, mode: leaf, unwind: 4, caps: "drop=1" } => |s| dirsem::dir_byte(s, 1);
    c05_bin_unbound { prop: C05, feat: "c05", tier: quick, mode: full, unwind: 3, caps: "run=2,clone=1,drop=2" } => |s| c05::ev_bin_unbound(s);
    // (segment skeletons of step.rs - build_pass_1/2 on segments without items - are not registered either:
    //  the lengths of vectors of structs are not folded, so the item loop body is still explored on garbage)
    c10_alias_rr_all0 { prop: C10, feat: "c10", tier: thorough, mode: leaf, unwind: 5, caps: "drop=1" } => |s| c10::bind_alias(s, 2, 7, 0);
    c10_alias_rr_all1 { prop: C10, feat: "c10", tier: thorough, mode: leaf, unwind: 5, caps: "drop=1" } => |s| c10::bind_alias(s, 7, 12, 0);
    c10_alias_r1_all0 { prop: C10, feat: "c10", tier: thorough, mode: leaf, unwind: 5, caps: "drop=1" } => |s| c10::bind_alias(s, 24, 29, 3);
    c10_alias_r1_all1 { prop: C10, feat: "c10", tier: thorough, mode: leaf, unwind: 5, caps: "drop=1" } => |s| c10::bind_alias(s, 29, 33, 3);
    c10_alias_r1_all2 { prop: C10, feat: "c10", tier: thorough, mode: leaf, unwind: 5, caps: "drop=1" } => |s| c10::bind_alias(s, 33, 37, 3);
    c10_alias_ri_op14 { prop: C10, feat: "c10", tier: thorough, mode: leaf, unwind: 5, caps: "drop=1" } => |s| c10::bind_alias(s, 14, 15, 2);
    c10_alias_ri_op15 { prop: C10, feat: "c10", tier: thorough, mode: leaf, unwind: 5, caps: "drop=1" } => |s| c10::bind_alias(s, 15, 16, 2);
    c10_alias_ri_op16 { prop: C10, feat: "c10", tier: thorough, mode: leaf, unwind: 5, caps: "drop=1" } => |s| c10::bind_alias(s, 16, 17, 2);
    c10_alias_ri_op17 { prop: C10, feat: "c10", tier: thorough, mode: leaf, unwind: 5, caps: "drop=1" } => |s| c10::bind_alias(s, 17, 18, 2);
    c10_alias_ri_op18 { prop: C10, feat: "c10", tier: thorough, mode: leaf, unwind: 5, caps: "drop=1" } => |s| c10::bind_alias(s, 18, 19, 2);
    c10_alias_ri_op19 { prop: C10, feat: "c10", tier: thorough, mode: leaf, unwind: 5, caps: "drop=1" } => |s| c10::bind_alias(s, 19, 20, 2);
    c10_alias_ri_op20 { prop: C10, feat: "c10", tier: thorough, mode: leaf, unwind: 5, caps: "drop=1" } => |s| c10::bind_alias(s, 20, 21, 2);
    // (C08: c08.rs is kept for the record - the 3-line instance reached 8 GB after 11 min and is not registered)
}
