//! C01 / C03 / C04 (and the L1 lemma of C02): `instruction::process` + `Operation::info`
//! against the independent ISA reference.
use crate::ctx::{Ctx, Tab};
use crate::ops::*;
use crate::refisa::*;
use crate::roles::*;
use crate::src::Src;
use crate::{chk, cov};
use avra_lib::instruction::operation::Operation;
use avra_lib::instruction::process;

/// Operand classes.  Inside a class every mnemonic takes operands of the same *kinds* in the
/// same order, so a harness can keep the operand shape concrete (CBMC then folds the enum tags
/// of the operands) while mnemonic and operand values are symbolic.
/// (name, first op index, one-past-last op index)
pub const CLASSES: [(&str, u8, u8); 25] = [
    ("rr", 0, 12),      // 0
    ("wi", 12, 14),     // 1
    ("ri", 14, 22),     // 2
    ("r1", 22, 37),     // 3
    ("mul", 37, 42),    // 4
    ("rel", 42, 44),    // 5
    ("long", 44, 46),   // 6
    ("iobit", 46, 50),  // 7
    ("regbit", 50, 54), // 8
    ("flag", 54, 56),   // 9
    ("movw", 56, 57),   // 10
    ("lds", 57, 58),    // 11
    ("sts", 58, 59),    // 12
    ("ld", 59, 60),     // 13
    ("ldd", 60, 61),    // 14
    ("st", 61, 62),     // 15
    ("std", 62, 63),    // 16
    ("lpm0", 63, 65),   // 17  lpm / elpm without operands
    ("lpm2", 63, 65),   // 18  lpm / elpm Rd, Z(+)
    ("in", 65, 66),     // 19
    ("out", 66, 67),    // 20
    ("fixed", 67, 78),  // 21
    ("br", 78, 96),     // 22
    ("brb", 96, 98),    // 23
    ("secl", 98, 114),  // 24
];

pub fn class_range(c: u8) -> (u8, u8) {
    (CLASSES[c as usize].1, CLASSES[c as usize].2)
}

fn is_rel_or_br(oi: u8) -> bool {
    oi == 42 || oi == 43 || (oi >= 78 && oi < 98)
}

fn is_direct(oi: u8) -> bool {
    oi == 57 || oi == 58
}

/// Draw an operand tuple from the *legal* domain of mnemonic `oi` of class `class` (the tuples
/// the ISA manual allows).  `class` is concrete in every harness.  Returns (count, operands).
pub fn draw_legal<S: Src>(s: &mut S, class: u8, oi: u8, addr: u32, avr8l: bool) -> (usize, [A; 3]) {
    let z = A::K(0);
    match class {
        0 => {
            let d = s.below(32);
            let r = s.below(32);
            (2, [A::R(d), A::R(r), z])
        }
        1 => {
            let p = s.below(4);
            let k = s.below(64);
            cov!(k == 63, "word immediate upper limit");
            (2, [A::R(24 + 2 * p), A::K(k as i64), z])
        }
        2 => {
            let d = s.below(16);
            let k = s.u8();
            cov!(k == 255, "byte immediate upper limit");
            (2, [A::R(16 + d), A::K(k as i64), z])
        }
        3 => {
            // ser (36) takes r16..r31, the others any register
            let d = s.below(32);
            s.assume(oi != 36 || d >= 16);
            (1, [A::R(d), z, z])
        }
        4 => {
            // muls (37): r16..r31; mulsu/fmul*: r16..r23
            let d = s.below(16);
            let r = s.below(16);
            s.assume(oi == 37 || (d < 8 && r < 8));
            (2, [A::R(16 + d), A::R(16 + r), z])
        }
        5 => {
            let d = s.u16();
            s.assume(d < 4096);
            let disp = d as i64 - 2048;
            cov!(disp == -2048, "rel12 lower limit");
            cov!(disp == 2047, "rel12 upper limit");
            (1, [A::K(addr as i64 + 1 + disp), z, z])
        }
        6 => {
            let k = s.u32();
            s.assume(k <= 0x3f_ffff);
            cov!(k == 0x3f_ffff, "k22 upper limit");
            (1, [A::K(k as i64), z, z])
        }
        7 => {
            let a = s.below(32);
            let b = s.below(8);
            (2, [A::K(a as i64), A::K(b as i64), z])
        }
        8 => {
            let d = s.below(32);
            let b = s.below(8);
            (2, [A::R(d), A::K(b as i64), z])
        }
        9 => {
            let b = s.below(8);
            (1, [A::K(b as i64), z, z])
        }
        10 => {
            let d = s.below(16);
            let r = s.below(16);
            (2, [A::R(2 * d), A::R(2 * r), z])
        }
        11 | 12 => {
            let d = s.below(32);
            let k = s.u16();
            if avr8l {
                s.assume(d >= 16 && k >= 0x40 && k <= 0xbf);
                cov!(k == 0x40, "lds/sts 16-bit lower limit");
                cov!(k == 0xbf, "lds/sts 16-bit upper limit");
            } else {
                cov!(k == 0xffff, "lds/sts 32-bit upper limit");
            }
            if class == 11 {
                (2, [A::R(d), A::K(k as i64), z])
            } else {
                (2, [A::K(k as i64), A::R(d), z])
            }
        }
        13 | 15 => {
            let d = s.below(32);
            let r = s.below(3);
            let m = s.below(3);
            if class == 13 {
                (2, [A::R(d), A::X(r, m, 0), z])
            } else {
                (2, [A::X(r, m, 0), A::R(d), z])
            }
        }
        14 | 16 => {
            let d = s.below(32);
            let r = 1 + s.below(2);
            let q = s.below(64);
            cov!(q == 63, "displacement upper limit");
            if class == 14 {
                (2, [A::R(d), A::X(r, 3, q as i64), z])
            } else {
                (2, [A::X(r, 3, q as i64), A::R(d), z])
            }
        }
        17 => (0, [z, z, z]),
        18 => {
            let d = s.below(32);
            let m = s.below(2);
            (2, [A::R(d), A::X(2, m, 0), z])
        }
        19 => {
            let d = s.below(32);
            let a = s.below(64);
            (2, [A::R(d), A::K(a as i64), z])
        }
        20 => {
            let d = s.below(32);
            let a = s.below(64);
            (2, [A::K(a as i64), A::R(d), z])
        }
        22 => {
            let d = s.below(128);
            let disp = d as i64 - 64;
            cov!(disp == -64, "rel7 lower limit");
            cov!(disp == 63, "rel7 upper limit");
            (1, [A::K(addr as i64 + 1 + disp), z, z])
        }
        23 => {
            let b = s.below(8);
            let d = s.below(128);
            let disp = d as i64 - 64;
            (2, [A::K(b as i64), A::K(addr as i64 + 1 + disp), z])
        }
        _ => (0, [z, z, z]),
    }
}

/// index of the last expression operand (the one that may be written as an identifier)
fn last_k(n: usize, a: &[A; 3]) -> Option<usize> {
    let is_k = |x: &A| matches!(x, A::K(_));
    if n > 2 && is_k(&a[2]) {
        Some(2)
    } else if n > 1 && is_k(&a[1]) {
        Some(1)
    } else if n > 0 && is_k(&a[0]) {
        Some(0)
    } else {
        None
    }
}

pub fn build_args(n: usize, a: &[A; 3], ident_at: Option<usize>) -> ArgVec {
    let f = |i: usize| -> avra_lib::instruction::InstructionOps {
        if i < n {
            to_ops(&a[i], if ident_at == Some(i) { KForm::Ident } else { KForm::Const })
        } else {
            filler()
        }
    };
    ArgVec::new([f(0), f(1), f(2)], n)
}

fn k_value(a: &A) -> i64 {
    match a {
        A::K(v) => *v,
        _ => 0,
    }
}

/// Compare `process` output with the reference words.
fn same_bytes(b: &Vec<u8>, e: &Enc) -> bool {
    match e.w1 {
        None => b.len() == 2 && b[0] == (e.w0 & 0xff) as u8 && b[1] == (e.w0 >> 8) as u8,
        Some(w1) => {
            b.len() == 4
                && b[0] == (e.w0 & 0xff) as u8
                && b[1] == (e.w0 >> 8) as u8
                && b[2] == (w1 & 0xff) as u8
                && b[3] == (w1 >> 8) as u8
        }
    }
}

fn asm_text(oi: u8, n: usize, a: &[A; 3]) -> String {
    let mut t = op_text(oi);
    for i in 0..n {
        t.push_str(if i == 0 { " " } else { ", " });
        t.push_str(&arg_text(&a[i]));
    }
    t
}

/// Native only: confirm through the public API (`build_str` on rendered assembler text).
/// Returns Some(true) if the public API also deviates from the reference, Some(false) if the
/// public API behaves as the reference says, None if the case cannot be rendered.
#[cfg(not(kani))]
pub fn api_confirm(oi: u8, n: usize, a: &[A; 3], addr: u32, avr8l: bool, expect: Option<Enc>) -> Option<bool> {
    if addr > 0x20000 {
        return None; // would need a multi-hundred-kilobyte image just to place the instruction
    }
    if avr8l && addr > 2000 {
        return None;
    }
    let mut src = String::new();
    // the device only matters to lds/sts (every other encoding is device independent, and
    // ATtiny20 lacks several mnemonics, which would reject the line for an unrelated reason)
    let avr8l = avr8l && is_direct(oi);
    if avr8l {
        src.push_str(".device ATtiny20\n");
    }
    if addr > 0 {
        src.push_str(&format!(".org {}\n", addr));
    }
    src.push_str(&asm_text(oi, n, a));
    src.push('\n');
    println!("NOTE: api_source={:?}", src);
    let r = std::panic::catch_unwind(|| avra_lib::builder::build_str(&src));
    let got: Option<Vec<u8>> = match r {
        Err(_) => {
            println!("NOTE: api_result=PANIC");
            return Some(true);
        }
        Ok(Err(e)) => {
            println!("NOTE: api_result=Err({})", e);
            None
        }
        Ok(Ok(br)) => {
            let tail = br.code[(addr as usize * 2).min(br.code.len())..].to_vec();
            println!("NOTE: api_result=Ok({:02x?})", tail);
            Some(tail)
        }
    };
    let want: Option<Vec<u8>> = expect.map(|e| {
        let mut v = vec![(e.w0 & 0xff) as u8, (e.w0 >> 8) as u8];
        if let Some(w1) = e.w1 {
            v.push((w1 & 0xff) as u8);
            v.push((w1 >> 8) as u8);
        }
        v
    });
    println!("NOTE: api_expected={:02x?}", want);
    Some(got != want)
}

// ------------------------------------------------------------------------------------------
// C01: every legal tuple assembles to the reference words (and L1: info().len agrees)

pub fn c01_enc<S: Src>(s: &mut S, class: u8, lo: u8, hi: u8, as_ident: bool) {
    // The mnemonic (index in lo..hi, a sub-range of the class) is chosen symbolically, but every
    // call below sees a *concrete* `oi` (hand-made path split): with a symbolic `Operation`
    // value CBMC walks every arm of `process`/`info` for every path and did not finish in 15 min.
    let sel = lo + s.below(hi - lo);
    crate::split!(sel, lo, hi, |oi| c01_enc_op(s, class, oi, as_ident));
}

pub fn c01_enc_op<S: Src>(s: &mut S, class: u8, oi: u8, as_ident: bool) {
    s.role(H_C01_ENC, oi as u32);
    let op = op_at(oi);
    let avr8l = if is_direct(oi) { s.bool() } else { false };
    let addr: u32 = if is_rel_or_br(oi) {
        let a = s.u32();
        s.assume(a <= 0x3f_ffff);
        a
    } else {
        0
    };
    let (n, a) = draw_legal(s, class, oi, addr, avr8l);
    let kpos = last_k(n, &a);
    let as_ident = as_ident && kpos.is_some();
    let ctx = Ctx::with(
        avr8l,
        if as_ident { Tab::Equ } else { Tab::None },
        match kpos {
            Some(i) => k_value(&a[i]),
            None => 0,
        },
        None,
    );
    let mut argv = build_args(n, &a, if as_ident { kpos } else { None });
    let expect = ref_encode(&op, &a[..n], addr, avr8l);
    chk!(s, expect.is_some(), "oracle self-check: reference accepts the drawn legal tuple");
    let info_len = op.info(&ctx).len;
    let res = argv.with(|v| process(&op, v, addr, &ctx));
    let ok = match (&res, &expect) {
        (Ok(b), Some(e)) => same_bytes(b, e),
        _ => false,
    };
    cov!(ok, "!legal tuple assembled to the reference words");
    if is_direct(oi) {
        cov!(ok && avr8l, "reduced-core form");
    }
    #[cfg(not(kani))]
    {
        s.note_s("asm", &asm_text(oi, n, &a));
        s.note("addr", addr as i64);
        s.note("avr8l", avr8l as i64);
        match &res {
            Ok(b) => s.note_s("process", &format!("Ok({:02x?})", b)),
            Err(e) => s.note_s("process", &format!("Err({})", e)),
        }
        s.note_s("reference", &format!("{:x?}", expect));
        if !ok {
            match api_confirm(oi, n, &a, addr, avr8l, expect) {
                Some(true) => println!("API-CONFIRMED"),
                Some(false) => println!("API-NOT-CONFIRMED"),
                None => println!("API-SKIPPED"),
            }
        } else if info_len != ref_len(&op, avr8l) {
            // the bytes are right but pass 1 would account a different length: visible through
            // the public API as a label after the instruction that does not equal the position
            // of the next item
            let mut src = String::new();
            if avr8l && is_direct(oi) {
                src.push_str(".device ATtiny20\n");
            }
            if addr <= 1000 {
                if addr > 0 {
                    src.push_str(&format!(".org {}\n", addr));
                }
                src.push_str(&asm_text(oi, n, &a));
                src.push_str("\nafter:\n.dw after\n");
                println!("NOTE: api_source={:?}", src);
                match std::panic::catch_unwind(|| avra_lib::builder::build_str(&src)) {
                    Ok(Ok(br)) => {
                        let pos = (br.code.len() / 2).saturating_sub(1);
                        let val = br.code[br.code.len() - 2] as usize | ((br.code[br.code.len() - 1] as usize) << 8);
                        println!("NOTE: api_result=label value {} , item emitted at word {}", val, pos);
                        if val != pos { println!("API-CONFIRMED") } else { println!("API-NOT-CONFIRMED") }
                    }
                    _ => println!("API-SKIPPED"),
                }
            } else {
                println!("API-SKIPPED");
            }
        }
    }
    chk!(s, res.is_ok(), "C01: a legal instruction was rejected");
    chk!(s, ok, "C01: emitted words differ from the ISA reference");
    chk!(s, info_len == ref_len(&op, avr8l), "C02-L1: info().len differs from the ISA length");
    if let Ok(b) = &res {
        chk!(s, b.len() as u32 == 2 * info_len, "C02-L1: emitted length differs from info().len");
    }
    core::mem::forget(res);
}

/// Oracle self-consistency (no /repo code involved): decoding the reference encoding gives back
/// the canonical instruction, for every legal tuple.  Together with `c01_enc` this is the
/// "decodes back to what was written" clause.
pub fn c01_oracle<S: Src>(s: &mut S, first_class: u8, n_classes: u8) {
    let sel = first_class + s.below(n_classes);
    crate::split!(sel, first_class, first_class + n_classes, |c| c01_oracle_class(s, c));
}

pub fn c01_oracle_class<S: Src>(s: &mut S, class: u8) {
    let (lo, hi) = class_range(class);
    let oi = lo + s.below(hi - lo);
    let op = op_at(oi);
    let avr8l = if is_direct(oi) { s.bool() } else { false };
    let addr: u32 = if is_rel_or_br(oi) {
        let a = s.u32();
        s.assume(a <= 0x3f_ffff);
        a
    } else {
        0
    };
    let (n, a) = draw_legal(s, class, oi, addr, avr8l);
    let e = ref_encode(&op, &a[..n], addr, avr8l);
    cov!(e.is_some(), "!legal tuple encoded by the reference");
    chk!(s, e.is_some(), "oracle: legal tuple encodes");
    if let Some(e) = e {
        let d = ref_decode(e.w0, e.w1, avr8l);
        let c = canon(&op, &a[..n], addr, avr8l);
        chk!(s, d != Dec::Unknown, "oracle: encoding decodes");
        chk!(s, d == c, "oracle: decode(encode(x)) == canonical(x)");
        chk!(s, e.w1.is_some() == (ref_len(&op, avr8l) == 2), "oracle: length");
    }
}

// ------------------------------------------------------------------------------------------
// C04: arbitrary operand vectors — Ok implies legal and equal to the reference; no panic

/// Draw an arbitrary operand (any kind, any register, any i64).
fn draw_any<S: Src>(s: &mut S, wide: bool) -> A {
    match s.below(3) {
        0 => A::R(s.below(32)),
        1 => {
            let v = s.i64();
            if !wide {
                // quick tier: a window well beyond both ends of every field
                s.assume(v >= -70000 && v <= 70000 || v >= 0x3f_0000 && v <= 0x41_0000);
            }
            A::K(v)
        }
        _ => {
            let r = s.below(3);
            let m = s.below(4);
            let q = if m == 3 {
                let q = s.i64();
                if !wide {
                    s.assume(q >= -300 && q <= 300);
                }
                q
            } else {
                0
            };
            A::X(r, m, q)
        }
    }
}

pub fn c04_rej<S: Src>(s: &mut S, lo: u8, hi: u8, wide: bool) {
    let sel = lo + s.below(hi - lo);
    crate::split!(sel, lo, hi, |oi| c04_rej_op(s, oi, wide));
}

pub fn c04_rej_op<S: Src>(s: &mut S, oi: u8, wide: bool) {
    s.role(H_C04_REJ, oi as u32);
    let op = op_at(oi);
    let avr8l = s.bool();
    let addr: u32 = if is_rel_or_br(oi) {
        let a = s.u32();
        s.assume(a <= 0x3f_ffff);
        a
    } else {
        0
    };
    let n = s.below(4) as usize;
    let a = [draw_any(s, wide), draw_any(s, wide), draw_any(s, wide)];
    // the first expression operand may be an identifier that is bound, or not bound at all
    let is_k = |x: &A| matches!(x, A::K(_));
    let kpos = if n > 0 && is_k(&a[0]) {
        Some(0)
    } else if n > 1 && is_k(&a[1]) {
        Some(1)
    } else if n > 2 && is_k(&a[2]) {
        Some(2)
    } else {
        None
    };
    let ident_mode = match kpos {
        Some(_) => s.below(3), // 0 literal, 1 bound symbol, 2 unbound symbol
        None => 0,
    };
    let ctx = Ctx::with(
        avr8l,
        if ident_mode == 1 { Tab::Equ } else { Tab::None },
        match kpos {
            Some(i) => k_value(&a[i]),
            None => 0,
        },
        None,
    );
    let mut argv = build_args(n, &a, if ident_mode != 0 { kpos } else { None });
    let expect = if ident_mode == 2 { None } else { ref_encode(&op, &a[..n], addr, avr8l) };
    let res = argv.with(|v| process(&op, v, addr, &ctx));
    let good = match (&res, &expect) {
        (Ok(b), Some(e)) => same_bytes(b, e),
        (Ok(_), None) => false,
        (Err(_), _) => true,
    };
    cov!(res.is_ok(), "!some operand vector is accepted");
    cov!(res.is_err(), "!some operand vector is rejected");
    #[cfg(not(kani))]
    {
        s.note_s("asm", &asm_text(oi, n, &a));
        s.note("addr", addr as i64);
        s.note("avr8l", avr8l as i64);
        s.note("ident_mode", ident_mode as i64);
        match &res {
            Ok(b) => s.note_s("process", &format!("Ok({:02x?})", b)),
            Err(e) => s.note_s("process", &format!("Err({})", e)),
        }
        s.note_s("reference", &format!("{:x?}", expect));
        if !good && ident_mode == 0 {
            match api_confirm(oi, n, &a, addr, avr8l, expect) {
                Some(true) => println!("API-CONFIRMED"),
                Some(false) => println!("API-NOT-CONFIRMED"),
                None => println!("API-SKIPPED"),
            }
        }
    }
    chk!(s, good, "C04: operands the ISA cannot encode were accepted, or accepted operands mis-encoded");
    if let Ok(b) = &res {
        chk!(s, b.len() as u32 == 2 * op.info(&ctx).len, "C02-L1: emitted length differs from info().len");
    }
    core::mem::forget(res);
}

// ------------------------------------------------------------------------------------------
// C03: relative branches — range iff, field = displacement, literal and pc-relative operands

pub fn c03_rel<S: Src>(s: &mut S, lo: u8, hi: u8, spelling: u8, full_addr: bool) {
    let sel = lo + s.below(hi - lo);
    crate::split!(sel, lo, hi, |oi| c03_rel_op(s, oi, spelling, full_addr));
}

/// `spelling` of the target operand (concrete per harness): 0 literal, 1 `pc + c`, 2 `pc - c`,
/// 3 label `s`.
pub fn c03_rel_op<S: Src>(s: &mut S, oi: u8, spelling: u8, full_addr: bool) {
    // kind 0: rjmp/rcall, 1: the 18 named branches, 2: brbs/brbc
    let kind: u8 = if oi == 42 || oi == 43 { 0 } else if oi >= 96 { 2 } else { 1 };
    s.role(H_C03_REL, oi as u32);
    let op = op_at(oi);
    let bits: u32 = if kind == 0 { 12 } else { 7 };
    let addr = s.u32();
    if !full_addr {
        s.assume(addr <= 0x3f_ffff);
    }
    let target = s.i64();
    let bit = if kind == 2 { s.below(8) } else { 0 };
    use avra_lib::expr::Expr;
    use avra_lib::instruction::InstructionOps;
    let texpr = match spelling {
        0 => Expr::Const(target),
        // the special symbol `pc` (what pass 2 installs = address of the instruction):
        // `rjmp pc` must reach the instruction itself.  `pc + c` / `pc - c` add one binary
        // node whose evaluation is the subject of C05 (ev_bits / ev_ident).
        1 => Expr::Ident(String::from("pc")),
        _ => Expr::Ident(String::from("s")),
    };
    if spelling == 1 {
        s.assume(target == addr as i64);
    }
    if spelling == 3 {
        // labels are u32 word addresses
        s.assume(target >= 0 && target <= u32::MAX as i64);
    }
    let ctx = Ctx::with(false, if spelling == 3 { Tab::Label } else { Tab::None }, target, Some(addr as i64));
    let a: [A; 3] = if kind == 2 {
        [A::K(bit as i64), A::K(target), A::K(0)]
    } else {
        [A::K(target), A::K(0), A::K(0)]
    };
    let n = if kind == 2 { 2 } else { 1 };
    let arr = if kind == 2 {
        [InstructionOps::E(Expr::Const(bit as i64)), InstructionOps::E(texpr), filler()]
    } else {
        [InstructionOps::E(texpr), filler(), filler()]
    };
    let mut argv = ArgVec::new(arr, n);
    let d: i128 = target as i128 - (addr as i128 + 1);
    let lo: i128 = -(1i128 << (bits - 1));
    let hi: i128 = (1i128 << (bits - 1)) - 1;
    let fits = d >= lo && d <= hi;
    let expect = ref_encode(&op, &a[..n], addr, false);
    chk!(s, expect.is_some() == fits, "oracle self-check: reference accepts iff the displacement fits");
    let res = argv.with(|v| process(&op, v, addr, &ctx));
    if spelling != 1 {
        cov!(res.is_ok() && d == lo, "!displacement at the lower limit accepted");
        cov!(res.is_ok() && d == hi, "!displacement at the upper limit accepted");
        cov!(res.is_err() && d == lo - 1, "!one below the lower limit rejected");
        cov!(res.is_err() && d == hi + 1, "!one above the upper limit rejected");
        cov!(res.is_ok() && d < 0, "backward");
        cov!(res.is_ok() && d > 0, "forward");
    } else {
        cov!(res.is_ok() && d == -1, "!pc names the instruction itself");
    }
    #[cfg(not(kani))]
    {
        s.note_s("asm", &asm_text(oi, n, &a));
        s.note("addr", addr as i64);
        s.note("target", target);
        s.note("spelling", spelling as i64);
        match &res {
            Ok(b) => s.note_s("process", &format!("Ok({:02x?})", b)),
            Err(e) => s.note_s("process", &format!("Err({})", e)),
        }
        s.note_s("reference", &format!("{:x?}", expect));
        let good = match (&res, &expect) {
            (Ok(b), Some(e)) => same_bytes(b, e),
            (Err(_), None) => true,
            _ => false,
        };
        if !good && spelling == 0 && target >= 0 {
            match api_confirm(oi, n, &a, addr, false, expect) {
                Some(true) => println!("API-CONFIRMED"),
                Some(false) => println!("API-NOT-CONFIRMED"),
                None => println!("API-SKIPPED"),
            }
        }
    }
    chk!(s, res.is_ok() == fits, "C03: build succeeds iff the displacement fits the field");
    if let (Ok(b), Some(e)) = (&res, &expect) {
        chk!(s, same_bytes(b, e), "C03: emitted word differs from the reference");
        // decoded displacement reaches the target
        let w0 = (b[0] as u16) | ((b[1] as u16) << 8);
        let field = if kind == 0 { w0 & 0x0fff } else { (w0 >> 3) & 0x7f };
        let sh = 16 - bits;
        let sd = (((field << sh) as i16) >> sh) as i128;
        chk!(s, addr as i128 + 1 + sd == target as i128, "C03: target != address + 1 + encoded displacement");
    }
    core::mem::forget(res);
}
