//! Native validation of the oracles (not a deciding step): run by `replay --selftest` at setup
//! and at the start of every check.
//!  * decode(encode(x)) == canonical(x) for every legal tuple of every mnemonic — exhaustive
//!    where the domain is small, boundary grid where it is large (k16/k22/addresses);
//!  * a few encodings quoted from the AVR Instruction Set Manual / avr-gcc listings.
use crate::ops::*;
use crate::refisa::*;
use crate::src::{ReplaySrc, Src};

struct Grid {
    vals: Vec<u64>,
}

fn run_class(class: u8, fails: &mut u32, count: &mut u64) {
    use crate::insn::{class_range, draw_legal};
    let (lo, hi) = class_range(class);
    for oi in lo..hi {
        // enumerate the draws of draw_legal by feeding every combination of small values;
        // assumption failures are skipped.  Value grid per draw:
        let grid: Vec<u64> = {
            let mut g: Vec<u64> = (0..=255u64).collect();
            g.extend([256, 0x7ff, 0x800, 0xfff, 0xffff, 0x1_0000, 0x1_ffff, 0x2_0000, 0x3f_fffe, 0x3f_ffff]);
            g
        };
        let is_rel = oi == 42 || oi == 43 || (oi >= 78 && oi < 98);
        let is_direct = oi == 57 || oi == 58;
        let addrs: Vec<u32> = if is_rel { vec![0, 1, 63, 64, 2047, 2048, 0xffff, 0x1_0000, 0x3f_ffff] } else { vec![0] };
        let modes: Vec<bool> = if is_direct { vec![false, true] } else { vec![false] };
        for &addr in &addrs {
            for &avr8l in &modes {
                // two nested loops over the grid cover every class (at most 2 wide draws matter;
                // classes with 3 draws have tiny third domains handled by the inner range)
                for &a in &grid {
                    for &b in &grid {
                        if b > 300 && a > 300 {
                            continue;
                        }
                        for c in 0..8u64 {
                            let vals = vec![a.to_le_bytes().to_vec(), b.to_le_bytes().to_vec(), c.to_le_bytes().to_vec()];
                            let mut s = ReplaySrc::new(vals);
                            s.quiet = true;
                            let (n, args) = draw_legal(&mut s, class, oi, addr, avr8l);
                            if s.assume_failed {
                                continue;
                            }
                            let used = s.pos;
                            *count += 1;
                            let op = op_at(oi);
                            match ref_encode(&op, &args[..n], addr, avr8l) {
                                None => {
                                    *fails += 1;
                                    if *fails < 20 {
                                        println!("SELFTEST: legal tuple not encodable: {} {:?}", op_text(oi), &args[..n]);
                                    }
                                }
                                Some(e) => {
                                    let d = ref_decode(e.w0, e.w1, avr8l);
                                    let cn = canon(&op, &args[..n], addr, avr8l);
                                    if d != cn || d == Dec::Unknown || e.w1.is_some() != (ref_len(&op, avr8l) == 2) {
                                        *fails += 1;
                                        if *fails < 20 {
                                            println!(
                                                "SELFTEST: {} {:?} addr={} -> {:x?} decodes to {:?}, expected {:?}",
                                                op_text(oi), &args[..n], addr, e, d, cn
                                            );
                                        }
                                    }
                                }
                            }
                            if used <= 2 {
                                break; // third value unused: no need to iterate c
                            }
                        }
                        if {
                            // second value unused?
                            let mut s = ReplaySrc::new(vec![a.to_le_bytes().to_vec()]);
                            s.quiet = true;
                            let _ = draw_legal(&mut s, class, oi, addr, avr8l);
                            s.pos <= 1
                        } {
                            break;
                        }
                    }
                }
            }
        }
    }
}

pub fn run() -> i32 {
    let mut fails = 0u32;
    let mut count = 0u64;
    for class in 0..crate::insn::CLASSES.len() as u8 {
        run_class(class, &mut fails, &mut count);
    }
    // manual / listing vectors: (mnemonic index, operands, addr, avr8l, words)
    use A::*;
    let vectors: Vec<(u8, Vec<A>, u32, bool, u16, Option<u16>)> = vec![
        (21, vec![R(16), K(0xff)], 0, false, 0xef0f, None),     // ldi r16, 0xff
        (21, vec![R(24), K(0x5a)], 0, false, 0xe58a, None),     // ldi r24, 0x5a
        (42, vec![K(0)], 0, false, 0xcfff, None),               // rjmp .-2
        (43, vec![K(5)], 0, false, 0xd004, None),               // rcall .+8
        (0, vec![R(1), R(2)], 0, false, 0x0c12, None),          // add r1, r2
        (0, vec![R(17), R(30)], 0, false, 0x0f1e, None),        // add r17, r30
        (10, vec![R(0), R(31)], 0, false, 0x2e0f, None),        // mov r0, r31
        (56, vec![R(24), R(30)], 0, false, 0x01cf, None),       // movw r24, r30
        (12, vec![R(24), K(1)], 0, false, 0x9601, None),        // adiw r24, 1
        (13, vec![R(30), K(63)], 0, false, 0x97ff, None),       // sbiw r30, 63
        (66, vec![K(0x3f), R(0)], 0, false, 0xbe0f, None),      // out 0x3f, r0
        (65, vec![R(0), K(0x3f)], 0, false, 0xb60f, None),      // in r0, 0x3f
        (49, vec![K(0x18), K(5)], 0, false, 0x9ac5, None),      // sbi 0x18, 5
        (48, vec![K(0x18), K(5)], 0, false, 0x98c5, None),      // cbi 0x18, 5
        (44, vec![K(0x1234)], 0, false, 0x940c, Some(0x1234)),  // jmp 0x1234
        (45, vec![K(0x3_0000)], 0, false, 0x941f, Some(0)),     // call 0x30000
        (57, vec![R(24), K(0x0100)], 0, false, 0x9180, Some(0x0100)), // lds r24, 0x0100
        (58, vec![K(0x0100), R(24)], 0, false, 0x9380, Some(0x0100)), // sts 0x0100, r24
        (59, vec![R(24), X(0, 1, 0)], 0, false, 0x918d, None),  // ld r24, X+
        (60, vec![R(24), X(1, 3, 2)], 0, false, 0x818a, None),  // ldd r24, Y+2
        (62, vec![X(2, 3, 63), R(0)], 0, false, 0xae07, None),  // std Z+63, r0
        (63, vec![], 0, false, 0x95c8, None),                   // lpm
        (63, vec![R(0), X(2, 1, 0)], 0, false, 0x9005, None),   // lpm r0, Z+
        (64, vec![R(16), X(2, 0, 0)], 0, false, 0x9106, None),  // elpm r16, Z
        (26, vec![R(28)], 0, false, 0x93cf, None),              // push r28
        (27, vec![R(29)], 0, false, 0x91df, None),              // pop r29
        (78, vec![K(0)], 0, false, 0xf3f9, None),               // breq .-2
        (79, vec![K(3)], 0, false, 0xf411, None),               // brne .+4
        (55, vec![K(7)], 0, false, 0x94f8, None),               // bclr 7 == cli
        (54, vec![K(7)], 0, false, 0x9478, None),               // bset 7 == sei
        (52, vec![R(0), K(7)], 0, false, 0xfa07, None),         // bst r0, 7
        (53, vec![R(0), K(7)], 0, false, 0xf807, None),         // bld r0, 7
        (50, vec![R(24), K(0)], 0, false, 0xfd80, None),        // sbrc r24, 0
        (51, vec![R(24), K(7)], 0, false, 0xff87, None),        // sbrs r24, 7
        (37, vec![R(16), R(17)], 0, false, 0x0201, None),       // muls r16, r17
        (38, vec![R(16), R(17)], 0, false, 0x0301, None),       // mulsu r16, r17
        (39, vec![R(16), R(17)], 0, false, 0x0309, None),       // fmul r16, r17
        (40, vec![R(23), R(16)], 0, false, 0x03f0, None),       // fmuls r23, r16
        (41, vec![R(16), R(23)], 0, false, 0x038f, None),       // fmulsu r16, r23
        (11, vec![R(24), R(22)], 0, false, 0x9f86, None),       // mul r24, r22
        (36, vec![R(31)], 0, false, 0xefff, None),              // ser r31
        (33, vec![R(1)], 0, false, 0x2411, None),               // clr r1
        (32, vec![R(24)], 0, false, 0x2388, None),              // tst r24
        (34, vec![R(24)], 0, false, 0x0f88, None),              // lsl r24
        (35, vec![R(25)], 0, false, 0x1f99, None),              // rol r25
        (19, vec![R(16), K(0x0f)], 0, false, 0x7f00, None),     // cbr r16, 0x0f == andi r16, 0xf0
        (57, vec![R(16), K(0x40)], 0, true, 0xa100, None),      // lds r16, 0x40 (AVRrc)
        (57, vec![R(16), K(0xbf)], 0, true, 0xa60f, None),      // lds r16, 0xbf
        (58, vec![K(0x80), R(31)], 0, true, 0xa8f0, None),      // sts 0x80, r31
        (77, vec![], 0, false, 0x95a8, None),                   // wdr
        (74, vec![], 0, false, 0x9598, None),                   // break
        (76, vec![], 0, false, 0x9588, None),                   // sleep
        (73, vec![], 0, false, 0x95e8, None),                   // spm
        (67, vec![], 0, false, 0x9409, None),                   // ijmp
        (69, vec![], 0, false, 0x9509, None),                   // icall
        (71, vec![], 0, false, 0x9508, None),                   // ret
        (72, vec![], 0, false, 0x9518, None),                   // reti
        (98 + 7, vec![], 0, false, 0x9478, None),               // sei
        (106 + 7, vec![], 0, false, 0x94f8, None),              // cli
        (98, vec![], 0, false, 0x9408, None),                   // sec
        (106 + 6, vec![], 0, false, 0x94e8, None),              // clt
    ];
    for (oi, args, addr, avr8l, w0, w1) in vectors {
        count += 1;
        let got = ref_encode(&op_at(oi), &args, addr, avr8l);
        if got != Some(Enc { w0, w1 }) {
            fails += 1;
            println!("SELFTEST: manual vector {} {:?}: reference gives {:x?}, manual says {:04x} {:x?}", op_text(oi), args, got, w0, w1);
        }
    }
    fails += crate::selftest_more(&mut count);
    println!("SELFTEST: {} oracle cases, {} failures", count, fails);
    if fails == 0 { 0 } else { 3 }
}
