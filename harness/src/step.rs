//! Pass-level "step" harnesses: the real `build_pass_1` + `build_pass_2` on one or two short
//! segments of *concrete shape* with symbolic values.  They reach what the unit harnesses cannot:
//! label values vs emitted positions (C02), `.db` padding (C06), `.set`/`.def`/`.undef`
//! sequencing and duplicate labels (C10), the device gate as called from pass 2 (C13), and
//! `pc` = address of the item (C03).  Induction over longer item sequences is by inspection of
//! the two accumulation loops and is NOT machine-checked.
use crate::ops::*;
use crate::refisa::*;
use crate::roles::*;
use crate::src::Src;
use crate::{chk, cov};
use avra_lib::builder::pass0::BuildResultPass0;
use avra_lib::builder::pass1::build_pass_1;
use avra_lib::builder::pass2::{build_pass_2, BuildResultPass2};
use avra_lib::context::CommonContext;
use avra_lib::directive::Operand;
use avra_lib::expr::Expr;
use avra_lib::instruction::operation::Operation;
use avra_lib::instruction::InstructionOps;
use avra_lib::parser::{CodePoint, DataDefine, Item, Segment, SegmentType};
use failure::Error;

// ------------------------------------------------------------------------------------------
// Models used by the `pass` mode (Kani stubs).  `Vec<(CodePoint, Item)>` elements never have
// foldable enum tags (tuple + push/clone: measured in a micro crate), so inside the pass loops
// CBMC walks every variant arm of everything that touches an item.  Two functions made that
// hopeless and are replaced in pass-level harnesses only:
//   * `instruction::process` (a symbolic `Operation` walks all 25 arms: never finished) ->
//     `process_model`: the ISA reference of refisa.rs on leaf operands.  `process` itself is
//     the subject of C01/C03/C04.
//   * `<Item as Clone>::clone` -> `item_clone_model`: a field-by-field copy restricted to the
//     item shapes the scenarios use (anything else trips an assertion).
// Everything else in pass 1 / pass 2 is the real code.

use avra_lib::context::Context;

pub fn process_model(
    op: &Operation,
    op_args: &Vec<InstructionOps>,
    current_address: u32,
    constants: &dyn Context,
) -> Result<Vec<u8>, Error> {
    let avr8l = constants.get_device().is_avr8l();
    let n = op_args.len();
    if n > 2 {
        return Err(failure::err_msg("model: too many operands"));
    }
    let mut a = [A::K(0), A::K(0), A::K(0)];
    let mut i = 0;
    while i < n {
        a[i] = match &op_args[i] {
            InstructionOps::R8(r) => A::R(r.number() as u8),
            InstructionOps::E(e) => {
                // register alias (like get_r8) or leaf expression (like Expr::run on a leaf)
                let alias = match e {
                    Expr::Ident(name) => constants.get_def(name),
                    _ => None,
                };
                match alias {
                    Some(r) => A::R(r.number() as u8),
                    None => match crate::stubs::run_leaf(e, constants) {
                        Ok(v) => A::K(v),
                        Err(_) => return Err(failure::err_msg("model: unbound symbol")),
                    },
                }
            }
            InstructionOps::Index(_) => {
                assert!(false, "process_model: index operands are not used by the pass scenarios");
                A::K(0)
            }
        };
        i += 1;
    }
    match ref_encode(op, &a[..n], current_address, avr8l) {
        Some(e) => {
            let mut v = vec![(e.w0 & 0xff) as u8, (e.w0 >> 8) as u8];
            if let Some(w1) = e.w1 {
                v.push((w1 & 0xff) as u8);
                v.push((w1 >> 8) as u8);
            }
            Ok(v)
        }
        None => Err(failure::err_msg("model: not encodable")),
    }
}

fn clone_ops(v: &Vec<Operand>) -> Vec<Operand> {
    let mut out = Vec::with_capacity(v.len());
    let mut i = 0;
    while i < v.len() {
        out.push(match &v[i] {
            Operand::E(e) => Operand::E(crate::stubs::clone_leaf(e)),
            Operand::S(s) => Operand::S(s.clone()),
        });
        i += 1;
    }
    out
}

fn clone_args(v: &Vec<InstructionOps>) -> Vec<InstructionOps> {
    let mut out = Vec::with_capacity(v.len());
    let mut i = 0;
    while i < v.len() {
        out.push(match &v[i] {
            InstructionOps::R8(r) => InstructionOps::R8(*r),
            InstructionOps::E(e) => InstructionOps::E(crate::stubs::clone_leaf(e)),
            InstructionOps::Index(_) => {
                assert!(false, "item_clone_model: index operands are not used by the pass scenarios");
                filler()
            }
        });
        i += 1;
    }
    out
}

pub fn item_clone_model(it: &Item) -> Item {
    match it {
        Item::ReserveData(n) => Item::ReserveData(*n),
        Item::Data(t, ops) => Item::Data(
            match t {
                DataDefine::Db => DataDefine::Db,
                DataDefine::Dw => DataDefine::Dw,
                DataDefine::Dd => DataDefine::Dd,
                DataDefine::Dq => DataDefine::Dq,
            },
            clone_ops(ops),
        ),
        Item::Def(n, e) => Item::Def(n.clone(), crate::stubs::clone_leaf(e)),
        Item::Undef(n) => Item::Undef(n.clone()),
        Item::Set(n, e) => Item::Set(n.clone(), crate::stubs::clone_leaf(e)),
        Item::Pragma(_) => {
            assert!(false, "item_clone_model: pragma items are not used by the pass scenarios");
            Item::ReserveData(0)
        }
        Item::Instruction(op, args) => Item::Instruction(op.clone(), clone_args(args)),
        Item::Label(n) => Item::Label(n.clone()),
    }
}

fn cp(n: usize) -> CodePoint {
    CodePoint { line_num: n, num: 2 }
}

fn seg(t: SegmentType, address: u32, items: Vec<(CodePoint, Item)>) -> Segment {
    Segment { items, t, address }
}

fn label(n: &str) -> Item {
    Item::Label(String::from(n))
}

fn dw_sym(n: &str) -> Item {
    Item::Data(DataDefine::Dw, vec![Operand::E(Expr::Ident(String::from(n)))])
}

fn run_passes(segments: Vec<Segment>, common: &CommonContext) -> Result<BuildResultPass2, Error> {
    let p0 = BuildResultPass0 { segments, messages: vec![] };
    let p1 = build_pass_1(p0, common)?;
    build_pass_2(p1, common)
}

fn word_at(code: &Vec<u8>, w: usize) -> Option<u16> {
    if code.len() >= 2 * w + 2 {
        Some(code[2 * w] as u16 | ((code[2 * w + 1] as u16) << 8))
    } else {
        None
    }
}

#[cfg(not(kani))]
fn note_result<S: Src>(s: &mut S, r: &Result<BuildResultPass2, Error>) {
    match r {
        Ok(b) => s.note_s("passes", &format!("Ok(code={:02x?} eeprom={:02x?} ram_filling={})", b.code, b.eeprom, b.ram_filling)),
        Err(e) => s.note_s("passes", &format!("Err({})", e)),
    }
}

/// S1 — code segment at word address `start` (0..=2; 0 means "no .org"):
///     <instruction of 1 or 2 words> ; l: ; .dw l ; .dw pc
/// which: 0 nop, 1 jmp k, 2 lds r, k (two words, or one word on a reduced core), 3 sts k, r
/// Expected image: `start` zero words, the instruction's reference words, then the word
/// `start + length`.
pub fn layout_instr<S: Src>(s: &mut S, which: u8, avr8l: bool) {
    s.role(H_C02_STEP, which as u32);
    let start = s.below(3) as u32;
    let r = s.below(32);
    let k = s.u16();
    let common = CommonContext::new();
    if avr8l {
        common.device.replace(Some(crate::ctx::device(true)));
        s.assume(r >= 16 && k >= 0x40 && k <= 0xbf);
    }
    let (op, oi, args, a): (Operation, u8, Vec<InstructionOps>, [A; 3]) = match which {
        0 => (Operation::Nop, 75, vec![], [A::K(0), A::K(0), A::K(0)]),
        1 => (Operation::Jmp, 44, vec![InstructionOps::E(Expr::Const(k as i64))], [A::K(k as i64), A::K(0), A::K(0)]),
        2 => (
            Operation::Lds,
            57,
            vec![InstructionOps::R8(crate::ctx::reg(r)), InstructionOps::E(Expr::Const(k as i64))],
            [A::R(r), A::K(k as i64), A::K(0)],
        ),
        _ => (
            Operation::Sts,
            58,
            vec![InstructionOps::E(Expr::Const(k as i64)), InstructionOps::R8(crate::ctx::reg(r))],
            [A::K(k as i64), A::R(r), A::K(0)],
        ),
    };
    let n = args.len();
    let expect = ref_encode(&op, &a[..n], start, avr8l);
    let items = vec![
        (cp(1), Item::Instruction(op, args)),
        (cp(2), label("l")),
        (cp(3), dw_sym("l")),
        (cp(4), dw_sym("pc")),
    ];
    let res = run_passes(vec![seg(SegmentType::Code, start, items)], &common);
    cov!(res.is_ok(), "!segment assembled");
    #[cfg(not(kani))]
    {
        s.note("start", start as i64);
        s.note_s("instruction", &format!("{} {:?}", op_text(oi), &a[..n]));
        s.note("avr8l", avr8l as i64);
        note_result(s, &res);
        s.note_s("reference", &format!("{:x?}", expect));
    }
    let _ = oi;
    chk!(s, res.is_ok() && expect.is_some(), "C02: a valid one-instruction segment failed to build");
    if let (Ok(b), Some(e)) = (&res, &expect) {
        let len: usize = if e.w1.is_some() { 2 } else { 1 };
        let st = start as usize;
        chk!(s, b.code.len() == 2 * (st + len + 2), "C02: image length differs from .org gap + instruction + data");
        let mut gap_zero = true;
        if st > 0 && word_at(&b.code, 0) != Some(0) {
            gap_zero = false;
        }
        if st > 1 && word_at(&b.code, 1) != Some(0) {
            gap_zero = false;
        }
        chk!(s, gap_zero, "C02: the .org gap is not filled with zero bytes");
        chk!(s, word_at(&b.code, st) == Some(e.w0), "C02: instruction does not land at the .org address");
        if let Some(w1) = e.w1 {
            chk!(s, word_at(&b.code, st + 1) == Some(w1), "C02: second instruction word misplaced");
        }
        chk!(
            s,
            word_at(&b.code, st + len) == Some((st + len) as u16),
            "C02: label value differs from the position where the next item was emitted"
        );
        chk!(
            s,
            word_at(&b.code, st + len + 1) == Some((st + len + 1) as u16),
            "C03: pc is not the address of the item being emitted"
        );
    }
    core::mem::forget(res);
    core::mem::forget(common);
}
