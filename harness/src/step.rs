//! Pass-level "step" harnesses: the real `build_pass_1` + `build_pass_2` on one or two short
//! segments of *concrete shape* with symbolic values.  They reach what the unit harnesses cannot:
//! label values vs emitted positions (C02), `.db` padding (C06), `.set`/`.def`/`.undef`
//! sequencing and duplicate labels (C10), the device gate as called from pass 2 (C13), and
//! `pc` = address of the item (C03).  Induction over longer item sequences is by inspection of
//! the two accumulation loops and is NOT machine-checked.
use crate::ops::*;
use crate::refisa::*;
use crate::roles::*;
use crate::src::Src;
use crate::{chk, cov};
use avra_lib::builder::pass0::BuildResultPass0;
use avra_lib::builder::pass1::build_pass_1;
use avra_lib::builder::pass2::{build_pass_2, BuildResultPass2};
use avra_lib::context::CommonContext;
use avra_lib::directive::Operand;
use avra_lib::expr::Expr;
use avra_lib::instruction::operation::Operation;
use avra_lib::instruction::InstructionOps;
use avra_lib::parser::{CodePoint, DataDefine, Item, Segment, SegmentType};
use failure::Error;

// ------------------------------------------------------------------------------------------
// Models used by the `pass` mode (Kani stubs).  `Vec<(CodePoint, Item)>` elements never have
// foldable enum tags (tuple + push/clone: measured in a micro crate), so inside the pass loops
// CBMC walks every variant arm of everything that touches an item.  Two functions made that
// hopeless and are replaced in pass-level harnesses only:
//   * `instruction::process` (a symbolic `Operation` walks all 25 arms: never finished) ->
//     `process_model`: the ISA reference of refisa.rs on leaf operands.  `process` itself is
//     the subject of C01/C03/C04.
//   * `<Item as Clone>::clone` -> `item_clone_model`: a field-by-field copy restricted to the
//     item shapes the scenarios use (anything else trips an assertion).
// Everything else in pass 1 / pass 2 is the real code.

use avra_lib::context::Context;

pub fn process_model(
    op: &Operation,
    op_args: &Vec<InstructionOps>,
    current_address: u32,
    constants: &dyn Context,
) -> Result<Vec<u8>, Error> {
    let avr8l = constants.get_device().is_avr8l();
    let n = op_args.len();
    if n > 2 {
        return Err(failure::err_msg("model: too many operands"));
    }
    let mut a = [A::K(0), A::K(0), A::K(0)];
    let mut i = 0;
    while i < n {
        a[i] = match &op_args[i] {
            InstructionOps::R8(r) => A::R(r.number() as u8),
            InstructionOps::E(e) => {
                // register alias (like get_r8) or leaf expression (like Expr::run on a leaf)
                let alias = match e {
                    Expr::Ident(name) => constants.get_def(name),
                    _ => None,
                };
                match alias {
                    Some(r) => A::R(r.number() as u8),
                    None => match crate::stubs::run_leaf(e, constants) {
                        Ok(v) => A::K(v),
                        Err(_) => return Err(failure::err_msg("model: unbound symbol")),
                    },
                }
            }
            InstructionOps::Index(_) => {
                assert!(false, "process_model: index operands are not used by the pass scenarios");
                A::K(0)
            }
        };
        i += 1;
    }
    match ref_encode(op, &a[..n], current_address, avr8l) {
        Some(e) => {
            let mut v = vec![(e.w0 & 0xff) as u8, (e.w0 >> 8) as u8];
            if let Some(w1) = e.w1 {
                v.push((w1 & 0xff) as u8);
                v.push((w1 >> 8) as u8);
            }
            Ok(v)
        }
        None => Err(failure::err_msg("model: not encodable")),
    }
}

fn clone_ops(v: &Vec<Operand>) -> Vec<Operand> {
    let mut out = Vec::with_capacity(v.len());
    let mut i = 0;
    while i < v.len() {
        out.push(match &v[i] {
            Operand::E(e) => Operand::E(crate::stubs::clone_leaf(e)),
            Operand::S(s) => Operand::S(s.clone()),
        });
        i += 1;
    }
    out
}

fn clone_args(v: &Vec<InstructionOps>) -> Vec<InstructionOps> {
    let mut out = Vec::with_capacity(v.len());
    let mut i = 0;
    while i < v.len() {
        out.push(match &v[i] {
            InstructionOps::R8(r) => InstructionOps::R8(*r),
            InstructionOps::E(e) => InstructionOps::E(crate::stubs::clone_leaf(e)),
            InstructionOps::Index(_) => {
                assert!(false, "item_clone_model: index operands are not used by the pass scenarios");
                filler()
            }
        });
        i += 1;
    }
    out
}

pub fn item_clone_model(it: &Item) -> Item {
    match it {
        Item::ReserveData(n) => Item::ReserveData(*n),
        Item::Data(t, ops) => Item::Data(
            match t {
                DataDefine::Db => DataDefine::Db,
                DataDefine::Dw => DataDefine::Dw,
                DataDefine::Dd => DataDefine::Dd,
                DataDefine::Dq => DataDefine::Dq,
            },
            clone_ops(ops),
        ),
        Item::Def(n, e) => Item::Def(n.clone(), crate::stubs::clone_leaf(e)),
        Item::Undef(n) => Item::Undef(n.clone()),
        Item::Set(n, e) => Item::Set(n.clone(), crate::stubs::clone_leaf(e)),
        Item::Pragma(_) => {
            assert!(false, "item_clone_model: pragma items are not used by the pass scenarios");
            Item::ReserveData(0)
        }
        Item::Instruction(op, args) => Item::Instruction(op.clone(), clone_args(args)),
        Item::Label(n) => Item::Label(n.clone()),
    }
}

fn cp(n: usize) -> CodePoint {
    CodePoint { line_num: n, num: 2 }
}

fn seg(t: SegmentType, address: u32, items: Vec<(CodePoint, Item)>) -> Segment {
    Segment { items, t, address }
}

fn label(n: &str) -> Item {
    Item::Label(String::from(n))
}

fn dw_sym(n: &str) -> Item {
    Item::Data(DataDefine::Dw, vec![Operand::E(Expr::Ident(String::from(n)))])
}

fn run_passes(segments: Vec<Segment>, common: &CommonContext) -> Result<BuildResultPass2, Error> {
    let p0 = BuildResultPass0 { segments, messages: vec![] };
    let p1 = build_pass_1(p0, common)?;
    build_pass_2(p1, common)
}

fn word_at(code: &Vec<u8>, w: usize) -> Option<u16> {
    if code.len() >= 2 * w + 2 {
        Some(code[2 * w] as u16 | ((code[2 * w + 1] as u16) << 8))
    } else {
        None
    }
}

#[cfg(not(kani))]
fn note_result<S: Src>(s: &mut S, r: &Result<BuildResultPass2, Error>) {
    match r {
        Ok(b) => s.note_s("passes", &format!("Ok(code={:02x?} eeprom={:02x?} ram_filling={})", b.code, b.eeprom, b.ram_filling)),
        Err(e) => s.note_s("passes", &format!("Err({})", e)),
    }
}

/// S1 — code segment at word address `start` (0..=2; 0 means "no .org"):
///     <instruction of 1 or 2 words> ; l: ; .dw l ; .dw pc
/// which: 0 nop, 1 jmp k, 2 lds r, k (two words, or one word on a reduced core), 3 sts k, r
/// Expected image: `start` zero words, the instruction's reference words, then the word
/// `start + length`.
pub fn layout_instr<S: Src>(s: &mut S, which: u8, avr8l: bool) {
    s.role(H_C02_STEP, which as u32);
    let start = s.below(3) as u32;
    let r = s.below(32);
    let k = s.u16();
    let common = CommonContext::new();
    if avr8l {
        common.device.replace(Some(crate::ctx::device(true)));
        s.assume(r >= 16 && k >= 0x40 && k <= 0xbf);
    }
    let (op, oi, args, a): (Operation, u8, Vec<InstructionOps>, [A; 3]) = match which {
        0 => (Operation::Nop, 75, vec![], [A::K(0), A::K(0), A::K(0)]),
        1 => (Operation::Jmp, 44, vec![InstructionOps::E(Expr::Const(k as i64))], [A::K(k as i64), A::K(0), A::K(0)]),
        2 => (
            Operation::Lds,
            57,
            vec![InstructionOps::R8(crate::ctx::reg(r)), InstructionOps::E(Expr::Const(k as i64))],
            [A::R(r), A::K(k as i64), A::K(0)],
        ),
        _ => (
            Operation::Sts,
            58,
            vec![InstructionOps::E(Expr::Const(k as i64)), InstructionOps::R8(crate::ctx::reg(r))],
            [A::K(k as i64), A::R(r), A::K(0)],
        ),
    };
    let n = args.len();
    let expect = ref_encode(&op, &a[..n], start, avr8l);
    let items = vec![
        (cp(1), Item::Instruction(op, args)),
        (cp(2), label("l")),
        (cp(3), dw_sym("l")),
        (cp(4), dw_sym("pc")),
    ];
    let res = run_passes(vec![seg(SegmentType::Code, start, items)], &common);
    cov!(res.is_ok(), "!segment assembled");
    #[cfg(not(kani))]
    {
        s.note("start", start as i64);
        s.note_s("instruction", &format!("{} {:?}", op_text(oi), &a[..n]));
        s.note("avr8l", avr8l as i64);
        note_result(s, &res);
        s.note_s("reference", &format!("{:x?}", expect));
    }
    let _ = oi;
    chk!(s, res.is_ok() && expect.is_some(), "C02: a valid one-instruction segment failed to build");
    if let (Ok(b), Some(e)) = (&res, &expect) {
        let len: usize = if e.w1.is_some() { 2 } else { 1 };
        let st = start as usize;
        chk!(s, b.code.len() == 2 * (st + len + 2), "C02: image length differs from .org gap + instruction + data");
        let mut gap_zero = true;
        if st > 0 && word_at(&b.code, 0) != Some(0) {
            gap_zero = false;
        }
        if st > 1 && word_at(&b.code, 1) != Some(0) {
            gap_zero = false;
        }
        chk!(s, gap_zero, "C02: the .org gap is not filled with zero bytes");
        chk!(s, word_at(&b.code, st) == Some(e.w0), "C02: instruction does not land at the .org address");
        if let Some(w1) = e.w1 {
            chk!(s, word_at(&b.code, st + 1) == Some(w1), "C02: second instruction word misplaced");
        }
        chk!(
            s,
            word_at(&b.code, st + len) == Some((st + len) as u16),
            "C02: label value differs from the position where the next item was emitted"
        );
        chk!(
            s,
            word_at(&b.code, st + len + 1) == Some((st + len + 1) as u16),
            "C03: pc is not the address of the item being emitted"
        );
    }
    core::mem::forget(res);
    core::mem::forget(common);
}

// ------------------------------------------------------------------------------------------
// further scenarios

fn db(ops: Vec<Operand>) -> Item {
    Item::Data(DataDefine::Db, ops)
}

fn k(v: i64) -> Operand {
    Operand::E(Expr::Const(v))
}

fn nop() -> Item {
    Item::Instruction(Operation::Nop, vec![])
}

fn byte_at(v: &Vec<u8>, i: usize) -> Option<u8> {
    if i < v.len() {
        Some(v[i])
    } else {
        None
    }
}

/// S2 — `.db` of n = 1..=3 byte constants in flash at word address `start` (0..=1), then
/// `l: .dw l`.  Odd byte counts are padded with a single zero byte; the label is
/// start + ceil(n/2).
pub fn layout_db<S: Src>(s: &mut S, n: usize) {
    s.role(H_C02_STEP, 10 + n as u32);
    let start = s.below(2) as u32;
    let b = [s.u8(), s.u8(), s.u8()];
    let common = CommonContext::new();
    let ops: Vec<Operand> = match n {
        1 => vec![k(b[0] as i64)],
        2 => vec![k(b[0] as i64), k(b[1] as i64)],
        _ => vec![k(b[0] as i64), k(b[1] as i64), k(b[2] as i64)],
    };
    let items = vec![(cp(1), db(ops)), (cp(2), label("l")), (cp(3), dw_sym("l"))];
    let res = run_passes(vec![seg(SegmentType::Code, start, items)], &common);
    cov!(res.is_ok(), "!segment assembled");
    #[cfg(not(kani))]
    {
        s.note("start", start as i64);
        s.note("n", n as i64);
        note_result(s, &res);
    }
    chk!(s, res.is_ok(), "C06: a .db line of byte constants failed to build");
    if let Ok(r) = &res {
        let st = 2 * start as usize;
        let padded = (n + 1) / 2 * 2;
        chk!(s, r.code.len() == st + padded + 2, "C06: flash image length differs from gap + padded .db + .dw");
        let mut ok = true;
        if n > 0 && byte_at(&r.code, st) != Some(b[0]) {
            ok = false;
        }
        if n > 1 && byte_at(&r.code, st + 1) != Some(b[1]) {
            ok = false;
        }
        if n > 2 && byte_at(&r.code, st + 2) != Some(b[2]) {
            ok = false;
        }
        chk!(s, ok, "C06: .db bytes not emitted in source order");
        if n % 2 == 1 {
            chk!(s, byte_at(&r.code, st + n) == Some(0), "C06: odd-length .db not padded with a zero byte");
        }
        chk!(
            s,
            word_at(&r.code, (st + padded) / 2) == Some(((st + padded) / 2) as u16),
            "C02: label after .db differs from the position of the next item"
        );
    }
    core::mem::forget(res);
    core::mem::forget(common);
}

/// S3 — EEPROM: `.db a, b, c` ; (a code segment in between) ; second EEPROM block at
/// address `org` (0 = continue, or 5): `l: .db d` ; code: `.dw l`.
/// Expected eeprom image: a b c [zero gap up to org] d; l = 3 or org.
pub fn eeprom_blocks<S: Src>(s: &mut S, org5: bool) {
    s.role(H_C02_STEP, 20 + org5 as u32);
    let b = [s.u8(), s.u8(), s.u8(), s.u8()];
    let common = CommonContext::new();
    let org: u32 = if org5 { 5 } else { 0 };
    let segs = vec![
        seg(SegmentType::Eeprom, 0, vec![(cp(1), db(vec![k(b[0] as i64), k(b[1] as i64), k(b[2] as i64)]))]),
        seg(SegmentType::Code, 0, vec![(cp(2), nop())]),
        seg(SegmentType::Eeprom, org, vec![(cp(3), label("l")), (cp(4), db(vec![k(b[3] as i64)]))]),
        seg(SegmentType::Code, 0, vec![(cp(5), dw_sym("l"))]),
    ];
    let res = run_passes(segs, &common);
    cov!(res.is_ok(), "!program assembled");
    #[cfg(not(kani))]
    {
        s.note("org", org as i64);
        note_result(s, &res);
    }
    chk!(s, res.is_ok(), "C02: interleaved eeprom/code segments failed to build");
    if let Ok(r) = &res {
        let at = if org5 { 5usize } else { 3usize };
        chk!(s, r.eeprom.len() == at + 1, "C02: eeprom image length differs from data + gap");
        chk!(
            s,
            byte_at(&r.eeprom, 0) == Some(b[0]) && byte_at(&r.eeprom, 1) == Some(b[1]) && byte_at(&r.eeprom, 2) == Some(b[2]),
            "C06: eeprom .db bytes not packed in source order"
        );
        if org5 {
            chk!(s, byte_at(&r.eeprom, 3) == Some(0) && byte_at(&r.eeprom, 4) == Some(0), "C02: eeprom .org gap not zero filled");
        }
        chk!(s, byte_at(&r.eeprom, at) == Some(b[3]), "C02: second eeprom block does not land at its address");
        chk!(s, r.code.len() == 4 && word_at(&r.code, 1) == Some(at as u16), "C02: eeprom label differs from the byte offset of its item");
    }
    core::mem::forget(res);
    core::mem::forget(common);
}

/// S4 — reservations: eeprom `.db a ; .byte n ; .db b` (n = 0..=3) and data segment
/// `.byte m ; l:` at address `dorg` (0 = RAM start, or RAM start + 4); code `.dw l`.
/// Expected: eeprom = a, n zeros, b; l = data start + m; ram_filling = extent of the data segment.
pub fn reservations<S: Src>(s: &mut S, with_org: bool) {
    s.role(H_C02_STEP, 30 + with_org as u32);
    let a = s.u8();
    let b = s.u8();
    let n = s.below(4) as i64;
    let m = s.below(4) as i64;
    let common = CommonContext::new();
    let ram_start = 0x60u32; // default device
    let dorg: u32 = if with_org { ram_start + 4 } else { 0 };
    let segs = vec![
        seg(
            SegmentType::Eeprom,
            0,
            vec![(cp(1), db(vec![k(a as i64)])), (cp(2), Item::ReserveData(n)), (cp(3), db(vec![k(b as i64)]))],
        ),
        seg(SegmentType::Data, dorg, vec![(cp(4), Item::ReserveData(m)), (cp(5), label("l"))]),
        seg(SegmentType::Code, 0, vec![(cp(6), dw_sym("l"))]),
    ];
    let res = run_passes(segs, &common);
    cov!(res.is_ok(), "!program assembled");
    #[cfg(not(kani))]
    {
        s.note("n", n);
        s.note("m", m);
        s.note("dorg", dorg as i64);
        note_result(s, &res);
    }
    chk!(s, res.is_ok(), "C06: reservations in eeprom / data segment failed to build");
    if let Ok(r) = &res {
        let n = n as usize;
        chk!(s, r.eeprom.len() == n + 2, "C06: .byte n in eeprom does not contribute n bytes");
        chk!(s, byte_at(&r.eeprom, 0) == Some(a) && byte_at(&r.eeprom, n + 1) == Some(b), "C06: data around an eeprom reservation misplaced");
        let mut zeros = true;
        if n > 0 && byte_at(&r.eeprom, 1) != Some(0) {
            zeros = false;
        }
        if n > 1 && byte_at(&r.eeprom, 2) != Some(0) {
            zeros = false;
        }
        if n > 2 && byte_at(&r.eeprom, 3) != Some(0) {
            zeros = false;
        }
        chk!(s, zeros, "C06: eeprom reservation is not zero bytes");
        let dstart = if with_org { ram_start + 4 } else { ram_start };
        chk!(s, word_at(&r.code, 0) == Some((dstart + m as u32) as u16), "C02: data-segment label differs from RAM start + offset");
        chk!(s, r.ram_filling == dstart + m as u32 - ram_start, "C12: RAM usage is not the extent of the data segment");
    }
    core::mem::forget(res);
    core::mem::forget(common);
}

/// S5 — items in the wrong segment fail the build.
/// case 0: .dw in .dseg, 1: .db in .dseg, 2: .byte in .cseg, 3: instruction in .eseg, 4: .dd in .dseg
pub fn wrong_segment<S: Src>(s: &mut S, case: u8) {
    s.role(H_C02_STEP, 40 + case as u32);
    let v = s.u8() as i64;
    let common = CommonContext::new();
    let (t, item) = match case {
        0 => (SegmentType::Data, Item::Data(DataDefine::Dw, vec![k(v)])),
        1 => (SegmentType::Data, db(vec![k(v)])),
        2 => (SegmentType::Code, Item::ReserveData(v & 3)),
        3 => (SegmentType::Eeprom, nop()),
        _ => (SegmentType::Data, Item::Data(DataDefine::Dd, vec![k(v)])),
    };
    let res = run_passes(vec![seg(t, 0, vec![(cp(1), item)])], &common);
    cov!(res.is_err(), "!misplaced item rejected");
    #[cfg(not(kani))]
    {
        s.note("case", case as i64);
        note_result(s, &res);
    }
    chk!(s, res.is_err(), "C06: a data directive / instruction in the wrong segment was accepted");
    core::mem::forget(res);
    core::mem::forget(common);
}

/// S6 — `.set` sequencing: `.set a = v1 ; .set b = a ; .dw a ; .set a = v2 ; .dw a ; .dw b`
/// must emit v1, v2, v1 (each reference sees the latest *preceding* assignment; b was
/// evaluated when it was assigned).
pub fn set_sequence<S: Src>(s: &mut S) {
    s.role(H_C10_PASS, 0);
    let v1 = s.u16() as i64;
    let v2 = s.u16() as i64;
    let common = CommonContext::new();
    let set = |n: &str, e: Expr| Item::Set(String::from(n), e);
    let items = vec![
        (cp(1), set("a", Expr::Const(v1))),
        (cp(2), set("b", Expr::Ident(String::from("a")))),
        (cp(3), dw_sym("a")),
        (cp(4), set("a", Expr::Const(v2))),
        (cp(5), dw_sym("a")),
        (cp(6), dw_sym("b")),
    ];
    let res = run_passes(vec![seg(SegmentType::Code, 0, items)], &common);
    cov!(res.is_ok(), "!program assembled");
    #[cfg(not(kani))]
    {
        s.note("v1", v1);
        s.note("v2", v2);
        note_result(s, &res);
    }
    chk!(s, res.is_ok(), "C10: a valid .set sequence failed to build");
    if let Ok(r) = &res {
        chk!(s, r.code.len() == 6, "C10: image length");
        chk!(s, word_at(&r.code, 0) == Some(v1 as u16), "C10: .set value not visible to the next reference");
        chk!(s, word_at(&r.code, 1) == Some(v2 as u16), "C10: reference does not see the latest preceding .set");
        chk!(s, word_at(&r.code, 2) == Some(v1 as u16), "C10: a .set variable changed after it was assigned");
    }
    core::mem::forget(res);
    core::mem::forget(common);
}

/// S7 — `.set` inside a data segment block is applied like anywhere else:
/// cseg `.set n = v1` ; dseg `.set n = v2` ; cseg `.dw n`  ->  v2
pub fn set_in_dseg<S: Src>(s: &mut S) {
    s.role(H_C10_PASS, 1);
    let v1 = s.u16() as i64;
    let v2 = s.u16() as i64;
    let common = CommonContext::new();
    let set = |n: &str, e: Expr| Item::Set(String::from(n), e);
    let segs = vec![
        seg(SegmentType::Code, 0, vec![(cp(1), set("n", Expr::Const(v1))), (cp(2), nop())]),
        seg(SegmentType::Data, 0, vec![(cp(3), set("n", Expr::Const(v2))), (cp(4), Item::ReserveData(1))]),
        seg(SegmentType::Code, 0, vec![(cp(5), dw_sym("n"))]),
    ];
    let res = run_passes(segs, &common);
    cov!(res.is_ok(), "!program assembled");
    #[cfg(not(kani))]
    {
        note_result(s, &res);
    }
    chk!(s, res.is_ok(), "C10: .set inside a .dseg block failed to build");
    if let Ok(r) = &res {
        chk!(s, word_at(&r.code, 1) == Some(v2 as u16), "C10: a .set written inside a .dseg block was not applied");
    }
    core::mem::forget(res);
    core::mem::forget(common);
}

/// S8 — `.def` / `.undef` lifetime: `.def t = rN ; com t ; .undef t ; com t`
/// case 0: only the first two items -> builds, identical to `com rN`
/// case 1: all four -> the build fails (alias used after .undef)
pub fn def_undef<S: Src>(s: &mut S, case: u8) {
    s.role(H_C10_PASS, 10 + case as u32);
    let r = s.below(32);
    let common = CommonContext::new();
    let reg_name = crate::ops::arg_text(&A::R(r));
    let com_t = || Item::Instruction(Operation::Com, vec![InstructionOps::E(Expr::Ident(String::from("t")))]);
    let mut items = vec![(cp(1), Item::Def(String::from("t"), Expr::Ident(reg_name))), (cp(2), com_t())];
    if case == 1 {
        items.push((cp(3), Item::Undef(String::from("t"))));
        items.push((cp(4), com_t()));
    }
    let res = run_passes(vec![seg(SegmentType::Code, 0, items)], &common);
    #[cfg(not(kani))]
    {
        s.note("reg", r as i64);
        note_result(s, &res);
    }
    if case == 0 {
        cov!(res.is_ok(), "!alias assembled");
        chk!(s, res.is_ok(), "C10: instruction using a .def alias failed to build");
        if let Ok(b) = &res {
            chk!(s, word_at(&b.code, 0) == Some(0x9400 | ((r as u16) << 4)), "C10: instruction using an alias differs from the one using the register");
        }
    } else {
        cov!(res.is_err(), "!use after .undef rejected");
        chk!(s, res.is_err(), "C10: an alias used after .undef still assembled");
    }
    core::mem::forget(res);
    core::mem::forget(common);
}

/// S9 — duplicate labels fail the build: same name twice in one code segment (case 0) or in
/// two segments of different kinds (case 1: code + data, case 2: code + eeprom).
pub fn duplicate_label<S: Src>(s: &mut S, case: u8) {
    s.role(H_C10_PASS, 20 + case as u32);
    let common = CommonContext::new();
    let segs = match case {
        0 => vec![seg(SegmentType::Code, 0, vec![(cp(1), label("d")), (cp(2), nop()), (cp(3), label("d")), (cp(4), nop())])],
        1 => vec![
            seg(SegmentType::Code, 0, vec![(cp(1), label("d")), (cp(2), nop())]),
            seg(SegmentType::Data, 0, vec![(cp(3), label("d")), (cp(4), Item::ReserveData(1))]),
        ],
        _ => vec![
            seg(SegmentType::Code, 0, vec![(cp(1), label("d")), (cp(2), nop())]),
            seg(SegmentType::Eeprom, 0, vec![(cp(3), label("d")), (cp(4), Item::ReserveData(1))]),
        ],
    };
    let res = run_passes(segs, &common);
    cov!(res.is_err(), "!duplicate label rejected");
    #[cfg(not(kani))]
    {
        note_result(s, &res);
    }
    chk!(s, res.is_err(), "C10: a duplicate label was accepted");
    core::mem::forget(res);
    core::mem::forget(common);
}

/// S10 — the device gate as pass 2 calls it: `mul rD, rR` on a device with / without the
/// NoMul flag (flag symbolic).
pub fn gate_in_pass2<S: Src>(s: &mut S) {
    s.role(H_C13_GATE, 11);
    let no_mul = s.bool();
    let d = s.below(32);
    let r = s.below(32);
    let common = CommonContext::new();
    let mut dev = avra_lib::device::Device::new(0);
    if no_mul {
        dev.disable_opts = avra_lib::vmap::BTreeSet::from_sorted_vec(vec![avra_lib::device::DisabledOptions::NoMul]);
    }
    common.device.replace(Some(dev));
    let item = Item::Instruction(
        Operation::Mul,
        vec![InstructionOps::R8(crate::ctx::reg(d)), InstructionOps::R8(crate::ctx::reg(r))],
    );
    let res = run_passes(vec![seg(SegmentType::Code, 0, vec![(cp(1), item)])], &common);
    cov!(res.is_ok(), "!instruction assembled on a core that has it");
    cov!(res.is_err(), "instruction rejected on a core that lacks it");
    #[cfg(not(kani))]
    {
        s.note("no_mul", no_mul as i64);
        note_result(s, &res);
    }
    chk!(s, res.is_ok() == !no_mul, "C13: pass 2 does not consult the device gate (or consults it wrongly)");
    if let Ok(b) = &res {
        let w = 0x9c00u16 | ((r as u16 & 0x10) << 5) | ((d as u16) << 4) | (r as u16 & 0x0f);
        chk!(s, word_at(&b.code, 0) == Some(w), "C13: an allowed instruction assembles differently with a device selected");
    }
    core::mem::forget(res);
    core::mem::forget(common);
}

// ------------------------------------------------------------------------------------------
// Skeleton harnesses: the segment-level bookkeeping of build_pass_1 / build_pass_2 on segments
// WITHOUT items.  With no items the item loops never run, so none of the unfoldable `Item`
// matches is reached, and what remains is exactly the running-offset / padding arithmetic.
// (The real pipeline drops empty segments before pass 1; the native replay therefore
// confirms a counterexample through `build_str` on a program that puts one byte / one nop
// into each segment.)

fn seg_kind(i: u8) -> SegmentType {
    match i {
        0 => SegmentType::Code,
        1 => SegmentType::Data,
        _ => SegmentType::Eeprom,
    }
}

/// Pass 1: three empty segments (kinds and `.org` addresses symbolic, addresses 0..=7 where 0
/// means "continue"): each segment starts at its `.org` address or at the running offset of
/// its kind; a segment that starts below the running offset is rejected; RAM usage is the
/// extent of the data segments.
pub fn skeleton_pass1<S: Src>(s: &mut S) {
    let kinds = s.below(27);
    // 27 kind combinations in two concrete levels
    crate::split!(kinds % 9, 0, 9, |lo| {
        let k0 = lo % 3;
        let k1 = lo / 3;
        let hi = kinds / 9;
        crate::split!(hi, 0, 3, |k2| skeleton_pass1_kinds(s, k0, k1, k2));
    });
}

fn skeleton_pass1_kinds<S: Src>(s: &mut S, k0: u8, k1: u8, k2: u8) {
    s.role(H_C02_STEP, 70);
    let a = [s.below(8) as u32, s.below(8) as u32, s.below(8) as u32];
    let k = [k0, k1, k2];
    let common = CommonContext::new();
    let ram_start = 0x60u32;
    // data-segment addresses are absolute RAM addresses: shift the small window up
    let addr = |i: usize| -> u32 {
        if k[i] == 1 && a[i] != 0 {
            ram_start + a[i]
        } else {
            a[i]
        }
    };
    let segs = vec![
        seg(seg_kind(k[0]), addr(0), vec![]),
        seg(seg_kind(k[1]), addr(1), vec![]),
        seg(seg_kind(k[2]), addr(2), vec![]),
    ];
    let p0 = BuildResultPass0 { segments: segs, messages: vec![] };
    let res = build_pass_1(p0, &common);
    // reference
    let mut off = [0u32, ram_start, 0u32];
    let mut want = [0u32; 3];
    let mut want_ok = true;
    let mut i = 0;
    while i < 3 {
        let t = k[i] as usize;
        let ad = addr(i);
        if want_ok {
            if ad == 0 {
                want[i] = off[t];
            } else if ad < off[t] {
                want_ok = false;
            } else {
                want[i] = ad;
                off[t] = ad;
            }
        }
        i += 1;
    }
    cov!(res.is_ok(), "!segments laid out");
    cov!(res.is_err(), "overlapping segment rejected");
    #[cfg(not(kani))]
    {
        s.note_s("kinds", &format!("{:?}", k));
        s.note_s("addresses", &format!("{:?}", [addr(0), addr(1), addr(2)]));
        match &res {
            Ok(r) => s.note_s("pass1", &format!("Ok(addresses={:?} ram_filling={})", r.segments.iter().map(|x| x.address).collect::<Vec<_>>(), r.ram_filling)),
            Err(e) => s.note_s("pass1", &format!("Err({})", e)),
        }
        s.note_s("reference", &format!("ok={} addresses={:?} ram_filling={}", want_ok, want, off[1] - ram_start));
        // public API: one item per segment (a nop, `.byte 1`, `.db 1`), label values read back
        // through `.dw` in a trailing code block is too intrusive for the layout; positions in the
        // images are observable instead
        api_skeleton(&k, &[addr(0), addr(1), addr(2)]);
    }
    chk!(s, res.is_ok() == want_ok, "C02: a segment below the running offset must be rejected, any other accepted");
    if let Ok(r) = &res {
        chk!(s, r.segments.len() == 3, "C02: pass 1 lost a segment");
        if r.segments.len() == 3 {
            chk!(
                s,
                r.segments[0].address == want[0] && r.segments[1].address == want[1] && r.segments[2].address == want[2],
                "C02: segment start differs from its .org address / the running offset of its kind"
            );
        }
        chk!(s, r.ram_filling == off[1] - ram_start, "C12: RAM usage is not the extent of the data segment");
    }
    core::mem::forget(res);
    core::mem::forget(common);
}

/// Pass 2: three empty segments with resolved start addresses: each image is padded with zero
/// bytes up to the start of each of its segments (code in words, EEPROM in bytes), nothing else
/// is emitted, RAM usage is passed through.
pub fn skeleton_pass2<S: Src>(s: &mut S) {
    let kinds = s.below(27);
    crate::split!(kinds % 9, 0, 9, |lo| {
        let k0 = lo % 3;
        let k1 = lo / 3;
        let hi = kinds / 9;
        crate::split!(hi, 0, 3, |k2| skeleton_pass2_kinds(s, k0, k1, k2));
    });
}

fn skeleton_pass2_kinds<S: Src>(s: &mut S, k0: u8, k1: u8, k2: u8) {
    s.role(H_C02_STEP, 71);
    let a = [s.below(6) as u32, s.below(6) as u32, s.below(6) as u32];
    let rf = s.u16() as u32;
    let k = [k0, k1, k2];
    let common = CommonContext::new();
    let segs = vec![
        seg(seg_kind(k[0]), a[0], vec![]),
        seg(seg_kind(k[1]), a[1], vec![]),
        seg(seg_kind(k[2]), a[2], vec![]),
    ];
    let p1 = avra_lib::builder::pass1::BuildResultPass1 { segments: segs, ram_filling: rf, messages: vec![] };
    let res = build_pass_2(p1, &common);
    let mut code_len = 0usize;
    let mut ee_len = 0usize;
    let mut i = 0;
    while i < 3 {
        if k[i] == 0 && 2 * a[i] as usize > code_len {
            code_len = 2 * a[i] as usize;
        }
        if k[i] == 2 && a[i] as usize > ee_len {
            ee_len = a[i] as usize;
        }
        i += 1;
    }
    cov!(res.is_ok(), "!segments emitted");
    #[cfg(not(kani))]
    {
        s.note_s("kinds", &format!("{:?}", k));
        s.note_s("addresses", &format!("{:?}", a));
        note_result(s, &res);
        s.note_s("reference", &format!("code_len={} eeprom_len={}", code_len, ee_len));
        api_skeleton(&k, &a);
    }
    chk!(s, res.is_ok(), "C02: pass 2 failed on empty segments");
    if let Ok(r) = &res {
        chk!(s, r.code.len() == code_len, "C02: flash image is not padded exactly up to the segment start");
        chk!(s, r.eeprom.len() == ee_len, "C02: eeprom image is not padded exactly up to the segment start");
        let mut zero = true;
        let mut j = 0;
        while j < 10 {
            if j < r.code.len() && r.code[j] != 0 {
                zero = false;
            }
            if j < r.eeprom.len() && r.eeprom[j] != 0 {
                zero = false;
            }
            j += 1;
        }
        chk!(s, zero, "C02: padding is not zero bytes");
        chk!(s, r.ram_filling == rf, "C12: RAM usage not passed through pass 2");
    }
    core::mem::forget(res);
    core::mem::forget(common);
}

/// Native only: the same segment skeleton through `build_str`, one byte / one nop per segment;
/// prints API-CONFIRMED when an image is not what the byte-accurate reference says.
#[cfg(not(kani))]
fn api_skeleton(k: &[u8; 3], a: &[u32; 3]) {
    let mut src = String::new();
    // reference images built alongside
    let mut code: Vec<u8> = vec![];
    let mut ee: Vec<u8> = vec![];
    let mut off = [0u32, 0x60, 0];
    let mut ok = true;
    for i in 0..3 {
        let t = k[i] as usize;
        src.push_str([".cseg\n", ".dseg\n", ".eseg\n"][t]);
        if a[i] != 0 {
            src.push_str(&format!(".org {}\n", a[i]));
            if a[i] < off[t] {
                ok = false;
            } else {
                off[t] = a[i];
            }
        }
        match t {
            0 => {
                src.push_str("ser r16\n");
                if ok {
                    code.resize(2 * off[0] as usize, 0);
                    code.extend([0x0f, 0xef]);
                }
                off[0] += 1;
            }
            1 => {
                src.push_str(".byte 1\n");
                off[1] += 1;
            }
            _ => {
                src.push_str(".db 0xa5\n");
                if ok {
                    ee.resize(off[2] as usize, 0);
                    ee.push(0xa5);
                }
                off[2] += 1;
            }
        }
    }
    println!("NOTE: api_source={:?}", src);
    match std::panic::catch_unwind(|| avra_lib::builder::build_str(&src)) {
        Err(_) => println!("API-CONFIRMED"),
        Ok(Err(e)) => {
            println!("NOTE: api_result=Err({})", e);
            if ok { println!("API-CONFIRMED") } else { println!("API-NOT-CONFIRMED") }
        }
        Ok(Ok(b)) => {
            println!("NOTE: api_result=Ok(code={:02x?} eeprom={:02x?} ram_filling={})", b.code, b.eeprom, b.ram_filling);
            println!("NOTE: api_expected=code={:02x?} eeprom={:02x?} ram_filling={}", code, ee, off[1] - 0x60);
            if !ok || b.code != code || b.eeprom != ee || b.ram_filling != off[1] - 0x60 {
                println!("API-CONFIRMED")
            } else {
                println!("API-NOT-CONFIRMED")
            }
        }
    }
}
