//! Exclusion of *listed* known findings from a re-run, so that other violations of the same
//! property are still searched for.  `excl_gen.rs` is (re)written by the runner before every
//! build; with an empty list nothing is excluded.
include!("excl_gen.rs");

pub fn excluded(h: u32, r: u32) -> bool {
    let mut i = 0;
    while i < EXCL.len() {
        if EXCL[i].0 == h && EXCL[i].1 == r {
            return true;
        }
        i += 1;
    }
    false
}
