//! C13 (gate function): `Device::check_operation` for every mnemonic x every subset of the
//! feature flags, against a gate transcribed from the flag documentation.
use crate::ops::*;
use crate::refisa::A;
use crate::roles::*;
use crate::src::Src;
use crate::{chk, cov};
use avra_lib::device::{Device, DisabledOptions};
use avra_lib::instruction::operation::Operation;

// BEGIN-FLAG-NAMES (compared by the runner with `enum DisabledOptions` scanned from /repo)
pub const FLAG_NAMES16: [&str; 16] = [
    "NoMul", "NoJmp", "NoXreg", "NoYreg", "Tiny1x", "NoLpm", "NoLpmX", "NoElpm", "NoElpmX", "NoSpm",
    "NoEspm", "NoMovw", "NoBreak", "NoEicall", "NoEijmp", "Avr8l",
];
// END-FLAG-NAMES

pub fn flag_at(i: u8) -> DisabledOptions {
    match i {
        0 => DisabledOptions::NoMul,
        1 => DisabledOptions::NoJmp,
        2 => DisabledOptions::NoXreg,
        3 => DisabledOptions::NoYreg,
        4 => DisabledOptions::Tiny1x,
        5 => DisabledOptions::NoLpm,
        6 => DisabledOptions::NoLpmX,
        7 => DisabledOptions::NoElpm,
        8 => DisabledOptions::NoElpmX,
        9 => DisabledOptions::NoSpm,
        10 => DisabledOptions::NoEspm,
        11 => DisabledOptions::NoMovw,
        12 => DisabledOptions::NoBreak,
        13 => DisabledOptions::NoEicall,
        14 => DisabledOptions::NoEijmp,
        _ => DisabledOptions::Avr8l,
    }
}

pub fn device_with(mask: u16) -> Device {
    let mut d = Device::new(0);
    let mut i = 0u8;
    while i < 16 {
        if (mask >> i) & 1 == 1 {
            d.disable_opts.insert(flag_at(i));
        }
        i += 1;
    }
    d
}

/// Is mnemonic `op` available on a core with these missing-feature flags?  Transcribed from the
/// flag documentation in device.rs and the property text.  (Operand-dependent restrictions —
/// X/Y pointer forms, `lpm Rd,Z` forms — are `ref_forms` below.)
pub fn ref_gate(op: &Operation, mask: u16) -> bool {
    let has = |i: u8| (mask >> i) & 1 == 1;
    let (no_mul, no_jmp, tiny1x, no_lpm, no_elpm, no_spm, no_movw, no_break, no_eicall, no_eijmp, avr8l) =
        (has(0), has(1), has(4), has(5), has(7), has(9), has(11), has(12), has(13), has(14), has(15));
    match op {
        Operation::Mul
        | Operation::Muls
        | Operation::Mulsu
        | Operation::Fmul
        | Operation::Fmuls
        | Operation::Fmulsu => !no_mul,
        Operation::Jmp | Operation::Call => !no_jmp,
        Operation::Lpm => !no_lpm,
        Operation::Elpm => !no_elpm,
        Operation::Spm => !no_spm,
        Operation::Eicall => !no_eicall,
        Operation::Eijmp => !no_eijmp,
        Operation::Break => !no_break,
        Operation::Movw => !no_movw,
        Operation::Adiw | Operation::Sbiw => !tiny1x && !avr8l,
        Operation::Ijmp
        | Operation::Icall
        | Operation::Ldd
        | Operation::Std
        | Operation::Lds
        | Operation::Sts
        | Operation::Push
        | Operation::Pop => !tiny1x,
        _ => true,
    }
}

/// Operand-dependent part of the gate (flag documentation: NoXreg "No X register", NoYreg
/// "No Y register", NoLpmX "No LPM Rd, Z or LPM Rd, Z+", NoElpmX likewise for ELPM):
/// `index` = pointer register of the index operand, if the operand list has one
/// (0 X, 1 Y, 2 Z); `n_args` = number of operands.
pub fn ref_forms(op: &Operation, index: Option<u8>, n_args: usize, mask: u16) -> bool {
    let has = |i: u8| (mask >> i) & 1 == 1;
    let (no_x, no_y, no_lpmx, no_elpmx) = (has(2), has(3), has(6), has(8));
    match op {
        Operation::Lpm => n_args == 0 || !no_lpmx,
        Operation::Elpm => n_args == 0 || !no_elpmx,
        Operation::Ld | Operation::St | Operation::Ldd | Operation::Std => match index {
            Some(0) => !no_x,
            Some(1) => !no_y,
            _ => true,
        },
        _ => true,
    }
}

/// Mnemonics whose availability depends on the operand form (indices into `op_at`):
/// ld, ldd, st, std, lpm, elpm.
pub const FORM_OPS: [u8; 6] = [59, 60, 61, 62, 63, 64];

/// `check_operation && check_operands` (what pass 2 consults) for one of the six
/// form-dependent mnemonics (`which` indexes FORM_OPS) or, `which == 6`, for any other
/// mnemonic given a worst-case operand list, x every operand shape x every set of <= 3 flags.
pub fn forms<S: Src>(s: &mut S, which: u8) {
    if which < 6 {
        let shape = s.below(13);
        crate::split!(shape, 0, 13, |sh| forms_shape(s, FORM_OPS[which as usize], sh));
    } else {
        let oi = s.below(114);
        s.assume(oi < 59 || oi > 64);
        crate::split!(oi, 0, 114, |o| forms_shape(s, o, 4));
    }
}

/// shape 0: no operands; 1..=12: `Rd, <index>` (for st/std: `<index>, Rr`) with
/// pointer register (shape-1)/4 (X, Y, Z) and form (shape-1)%4 (plain, post-increment,
/// pre-decrement, +displacement)
fn forms_shape<S: Src>(s: &mut S, oi: u8, shape: u8) {
    let count = s.below(4);
    crate::split!(count, 0, 4, |c| forms_n(s, oi, shape, c));
}

fn forms_n<S: Src>(s: &mut S, oi: u8, shape: u8, count: u8) {
    s.role(H_C13_GATE, oi as u32);
    let op = op_at(oi);
    let (dev, mask) = device_of(s, count);
    let q = s.below(64) as i64;
    let (index, n_args) = if shape == 0 { (None, 0usize) } else { (Some((shape - 1) / 4), 2usize) };
    let index_first = matches!(op, Operation::St | Operation::Std);
    let ix = A::X(index.unwrap_or(2), (shape.wrapping_sub(1)) % 4, q);
    let r = A::R(16);
    let arr = if index_first {
        [to_ops(&ix, KForm::Const), to_ops(&r, KForm::Const), filler()]
    } else {
        [to_ops(&r, KForm::Const), to_ops(&ix, KForm::Const), filler()]
    };
    let mut args = ArgVec::new(arr, n_args);
    let got_op = dev.check_operation(&op);
    let got_forms = args.with(|v| dev.check_operands(&op, v));
    let want = ref_gate(&op, mask) && ref_forms(&op, index, n_args, mask);
    cov!(got_op && got_forms, "!form allowed on some core");
    #[cfg(not(kani))]
    {
        s.note_s("op", &op_text(oi));
        s.note_s("operands", &if n_args == 0 { String::new() } else if index_first { format!("{}, r16", arg_text(&ix)) } else { format!("r16, {}", arg_text(&ix)) });
        s.note("mask", mask as i64);
        s.note("check_operation", got_op as i64);
        s.note("check_operands", got_forms as i64);
        s.note("reference", want as i64);
        let text = if n_args == 0 { op_text(oi) } else if index_first { format!("{} {}, r16", op_text(oi), arg_text(&ix)) } else { format!("{} r16, {}", op_text(oi), arg_text(&ix)) };
        api_forms(&op, &text, index, n_args);
    }
    chk!(s, (got_op && got_forms) == want, "C13: device gate (mnemonic and operand form) differs from the feature-flag documentation");
    core::mem::forget(dev);
}

/// a device with `count` (<= 3) symbolic feature flags and its flag mask
fn device_of<S: Src>(s: &mut S, count: u8) -> (Device, u16) {
    let f0 = s.below(16);
    let f1 = s.below(16);
    let f2 = s.below(16);
    s.assume(f0 < f1 && f1 < f2);
    let mut mask: u16 = 0;
    let mut flags: Vec<DisabledOptions> = Vec::with_capacity(3);
    if count > 0 {
        flags.push(flag_at(f0));
        mask |= 1 << f0;
    }
    if count > 1 {
        flags.push(flag_at(f1));
        mask |= 1 << f1;
    }
    if count > 2 {
        flags.push(flag_at(f2));
        mask |= 1 << f2;
    }
    let mut dev = Device::new(0);
    dev.disable_opts = avra_lib::vmap::BTreeSet::from_sorted_vec(flags);
    (dev, mask)
}

#[cfg(not(kani))]
fn api_forms(op: &Operation, text: &str, index: Option<u8>, n_args: usize) {
    use avra_lib::device::DEVICES;
    let mut confirmed = 0;
    let mut names: Vec<&'static str> = DEVICES.iter().map(|(k, _)| *k).collect();
    names.sort();
    for name in names {
        let dev = DEVICES.get(name).unwrap();
        let mut mask = 0u16;
        for i in 0..16u8 {
            if dev.disable_opts.contains(&flag_at(i)) {
                mask |= 1 << i;
            }
        }
        let want = ref_gate(op, mask) && ref_forms(op, index, n_args, mask);
        let src = format!(".device {}\n{}\n", name, text);
        let r = std::panic::catch_unwind(|| avra_lib::builder::build_str(&src));
        let ok = matches!(r, Ok(Ok(_)));
        // a legal form only: a build failure for another reason proves nothing
        let legal = matches!(std::panic::catch_unwind(|| avra_lib::builder::build_str(&format!("{}\n", text))), Ok(Ok(_)));
        if legal && ok != want {
            if confirmed < 3 {
                println!("NOTE: api_source={:?} builds={} reference_allows={}", src, ok, want);
            }
            confirmed += 1;
        }
    }
    if confirmed > 0 {
        println!("API-CONFIRMED");
    } else {
        println!("API-NOT-CONFIRMED");
    }
}

pub fn gate<S: Src>(s: &mut S, lo: u8, hi: u8) {
    let sel = lo + s.below(hi - lo);
    crate::split!(sel, lo, hi, |oi| gate_op(s, oi));
}

fn gate_op<S: Src>(s: &mut S, oi: u8) {
    s.role(H_C13_GATE, oi as u32);
    // Bound: every set of at most 3 of the 16 feature flags (the gate's verdict for one
    // mnemonic depends on at most two flags).  The flags themselves are symbolic; they are
    // inserted in increasing order so that the list-based set never has to shift elements.
    let count = s.below(4);
    crate::split!(count, 0, 4, |c| gate_op_n(s, oi, c));
}

fn gate_op_n<S: Src>(s: &mut S, oi: u8, count: u8) {
    let op = op_at(oi);
    let f0 = s.below(16);
    let f1 = s.below(16);
    let f2 = s.below(16);
    s.assume(f0 < f1 && f1 < f2);
    let mut mask: u16 = 0;
    let mut flags: Vec<DisabledOptions> = Vec::with_capacity(3);
    if count > 0 {
        flags.push(flag_at(f0));
        mask |= 1 << f0;
    }
    if count > 1 {
        flags.push(flag_at(f1));
        mask |= 1 << f1;
    }
    if count > 2 {
        flags.push(flag_at(f2));
        mask |= 1 << f2;
    }
    let mut dev = Device::new(0);
    dev.disable_opts = avra_lib::vmap::BTreeSet::from_sorted_vec(flags);
    let got = dev.check_operation(&op);
    let want = ref_gate(&op, mask);
    cov!(got, "!mnemonic allowed on some core");
    #[cfg(not(kani))]
    {
        s.note_s("op", &op_text(oi));
        s.note("mask", mask as i64);
        s.note("check_operation", got as i64);
        s.note("reference", want as i64);
        api_gate(oi, want);
    }
    chk!(s, got == want, "C13: device gate differs from the feature-flag documentation");
    core::mem::forget(dev);
}

#[cfg(not(kani))]
fn api_gate(oi: u8, _want: bool) {
    use avra_lib::device::DEVICES;
    let text = crate::c13::sample_text(oi);
    let mut confirmed = 0;
    let mut names: Vec<&'static str> = DEVICES.iter().map(|(k, _)| *k).collect();
    names.sort();
    for name in names {
        let dev = DEVICES.get(name).unwrap();
        let mut mask = 0u16;
        for i in 0..16u8 {
            if dev.disable_opts.contains(&flag_at(i)) {
                mask |= 1 << i;
            }
        }
        let want = ref_gate(&op_at(oi), mask);
        let src = format!(".device {}\n{}\n", name, text);
        let r = std::panic::catch_unwind(|| avra_lib::builder::build_str(&src));
        let ok = matches!(r, Ok(Ok(_)));
        if ok != want {
            if confirmed < 3 {
                println!("NOTE: api_source={:?} builds={} reference_allows={}", src, ok, want);
            }
            confirmed += 1;
        }
    }
    if confirmed > 0 {
        println!("API-CONFIRMED");
    } else {
        println!("API-NOT-CONFIRMED");
    }
}

/// a legal instance of mnemonic `oi` as assembler text
#[cfg(not(kani))]
pub fn sample_text(oi: u8) -> String {
    let n = op_text(oi);
    let args = match oi {
        0..=11 => "r16, r17",
        12 | 13 => "r24, 1",
        14..=21 => "r16, 1",
        22..=36 => "r16",
        37..=41 => "r16, r17",
        42 | 43 => "0",
        44 | 45 => "0",
        46..=49 => "1, 1",
        50..=53 => "r16, 1",
        54 | 55 => "1",
        56 => "r16, r18",
        57 => "r16, 0x60",
        58 => "0x60, r16",
        59 => "r16, Z",
        60 => "r16, Z+1",
        61 => "Z, r16",
        62 => "Z+1, r16",
        63 | 64 => "",
        65 => "r16, 1",
        66 => "1, r16",
        67..=77 => "",
        78..=95 => "0",
        96 | 97 => "1, 0",
        _ => "",
    };
    format!("{} {}", n, args)
}
