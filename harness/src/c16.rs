//! C16 (unit level): panic freedom of `Directive::parse` on short / odd operand lists, and
//! bounded recursion of symbol evaluation.
use crate::roles::*;
use crate::src::Src;
use crate::{chk, cov};
use avra_lib::context::CommonContext;
use avra_lib::directive::{Directive, DirectiveOps, Operand};
use avra_lib::expr::Expr;
use avra_lib::parser::{CodePoint, ParseContext};
use core::mem::ManuallyDrop;

// BEGIN-DIRECTIVE-NAMES (compared by the runner with `enum Directive` scanned from /repo)
pub const DIRECTIVE_NAMES: [&str; 39] = [
    "Byte", "CSeg", "CSegSize", "Db", "Def", "Device", "DSeg", "Dw", "EndM", "EndMacro", "Equ",
    "ESeg", "Exit", "Include", "IncludePath", "List", "ListMac", "Macro", "NoList", "Org", "Set",
    "Define", "Else", "ElIf", "Endif", "Error", "If", "IfDef", "IfNDef", "Message", "Dd", "Dq",
    "Undef", "Warning", "Overlap", "NoOverlap", "Pragma", "Custom", "-",
];
// END-DIRECTIVE-NAMES

pub fn directive_at(i: u8) -> Directive {
    match i {
        0 => Directive::Byte,
        1 => Directive::CSeg,
        2 => Directive::CSegSize,
        3 => Directive::Db,
        4 => Directive::Def,
        5 => Directive::Device,
        6 => Directive::DSeg,
        7 => Directive::Dw,
        8 => Directive::EndM,
        9 => Directive::EndMacro,
        10 => Directive::Equ,
        11 => Directive::ESeg,
        12 => Directive::Exit,
        13 => Directive::Include,
        14 => Directive::IncludePath,
        15 => Directive::List,
        16 => Directive::ListMac,
        17 => Directive::Macro,
        18 => Directive::NoList,
        19 => Directive::Org,
        20 => Directive::Set,
        21 => Directive::Define,
        22 => Directive::Else,
        23 => Directive::ElIf,
        24 => Directive::Endif,
        25 => Directive::Error,
        26 => Directive::If,
        27 => Directive::IfDef,
        28 => Directive::IfNDef,
        29 => Directive::Message,
        30 => Directive::Dd,
        31 => Directive::Dq,
        32 => Directive::Undef,
        33 => Directive::Warning,
        34 => Directive::Overlap,
        35 => Directive::NoOverlap,
        36 => Directive::Pragma,
        _ => Directive::Custom(String::from("x")),
    }
}

pub const DIR_TEXT: [&str; 38] = [
    ".byte", ".cseg", ".csegsize", ".db", ".def", ".device", ".dseg", ".dw", ".endm", ".endmacro", ".equ",
    ".eseg", ".exit", ".include", ".includepath", ".list", ".listmac", ".macro", ".nolist", ".org", ".set",
    ".define", ".else", ".elif", ".endif", ".error", ".if", ".ifdef", ".ifndef", ".message", ".dd", ".dq",
    ".undef", ".warning", ".overlap", ".nooverlap", ".pragma", ".x",
];

fn draw_op<S: Src>(s: &mut S) -> (Operand, u8, i64) {
    let k = s.below(3);
    let v = s.i64();
    (
        match k {
            0 => Operand::E(Expr::Const(v)),
            1 => Operand::E(Expr::Ident(String::from("n"))),
            _ => Operand::S(String::from("t")),
        },
        k,
        v,
    )
}

/// `Directive::parse` on an operand list of symbolic length 0..=2 (or an assignment) over a
/// fresh parse context: returns a value or an error, never panics.
/// Include / IncludePath are excluded (they go to the file system: C11, not claimed).
pub fn dir_parse<S: Src>(s: &mut S, lo: u8, hi: u8) {
    let sel = lo + s.below(hi - lo);
    crate::split!(sel, lo, hi, |di| dir_parse_one(s, di));
}

fn dir_parse_one<S: Src>(s: &mut S, di: u8) {
    // operand-list shape (assignment, or a list of 0, 1 or 2 operands) chosen symbolically but
    // explored on concrete paths
    let shape = s.below(4);
    crate::split!(shape, 0, 4, |sh| dir_parse_shape(s, di, sh == 3, if sh == 3 { 0 } else { sh as usize }));
}

fn dir_parse_shape<S: Src>(s: &mut S, di: u8, assign: bool, n: usize) {
    s.role(H_C16_DIR, di as u32);
    let d = directive_at(di);
    let (o0, k0, v0) = draw_op(s);
    let (o1, k1, v1) = draw_op(s);
    let common = CommonContext::new();
    let ctx = ParseContext::new(
        std::path::PathBuf::new(),
        std::cell::RefCell::new(avra_lib::vmap::BTreeSet::new()),
        common,
    );
    let mut arr = ManuallyDrop::new([o0, o1]);
    let opts = if assign {
        DirectiveOps::Assign(Expr::Ident(String::from("n")), Expr::Const(v0))
    } else {
        DirectiveOps::OpList(unsafe { Vec::from_raw_parts(arr.as_mut_ptr(), n, 2) })
    };
    let opts = ManuallyDrop::new(opts);
    #[cfg(not(kani))]
    {
        let kind = |k: u8, v: i64| match k {
            0 => format!("{}", v),
            1 => "n".to_string(),
            _ => "\"t\"".to_string(),
        };
        let text = if assign {
            format!("{} n = {}", DIR_TEXT[di as usize], v0)
        } else {
            match n {
                0 => DIR_TEXT[di as usize].to_string(),
                1 => format!("{} {}", DIR_TEXT[di as usize], kind(k0, v0)),
                _ => format!("{} {}, {}", DIR_TEXT[di as usize], kind(k0, v0), kind(k1, v1)),
            }
        };
        s.note_s("line", &text);
        // public API: the same line must not panic either
        if (v0 >= 0 || k0 != 0) && (v1 >= 0 || k1 != 0 || n < 2) {
            let src = format!("{}\n", text);
            let r = std::panic::catch_unwind(|| avra_lib::builder::build_str(&src));
            match r {
                Err(_) => {
                    println!("NOTE: api_source={:?} -> PANIC", src);
                    println!("API-CONFIRMED");
                }
                Ok(_) => println!("NOTE: api_source={:?} -> no panic", src),
            }
        }
    }
    let _ = (k0, k1, v1);
    let r = d.parse(&opts, &ctx, CodePoint { line_num: 1, num: 2 });
    cov!(r.is_ok(), "some operand list is accepted");
    cov!(r.is_err() || r.is_ok(), "!directive handler returned");
    core::mem::forget(r);
    core::mem::forget(ctx);
    core::mem::forget(d);
}

/// Two `.equ` symbols whose definitions are symbolic among {constant, the other symbol, itself}:
/// evaluation must terminate with a value or an error.  Under Kani the recursion of `Expr::run`
/// is capped; a failed unwinding assertion on that cap *is* the counterexample (unbounded
/// recursion).  The native replay runs the evaluation in a thread with the default 2 MiB thread stack and a
/// watchdog.
pub fn equ_cycle<S: Src>(s: &mut S) {
    // definitions of a and b: 0 constant, 1 -> a, 2 -> b; chosen symbolically, explored on
    // concrete paths (a symbolic definition gives the returned Expr a symbolic tag)
    let combo = s.below(9);
    crate::split!(combo, 0, 9, |c| equ_cycle_with(s, c / 3, c % 3));
}

pub fn equ_cycle_one<S: Src>(s: &mut S, combo: u8) {
    equ_cycle_with(s, combo / 3, combo % 3)
}

fn equ_cycle_with<S: Src>(s: &mut S, d0: u8, d1: u8) {
    s.role(H_C16_EQU, (d0 * 3 + d1) as u32);
    let v = s.i64();
    #[cfg(kani)]
    {
        let ctx = EquCtx { d0, d1, v };
        let e = Expr::Ident(String::from("a"));
        let r = e.run(&ctx);
        kani::cover!(r.is_ok() || r.is_err(), "!evaluation returned a value or an error");
        core::mem::forget(r);
        core::mem::forget(e);
    }
    #[cfg(not(kani))]
    {
        let def = |d: u8| match d {
            0 => format!("{}", v.max(0)),
            1 => "a".to_string(),
            _ => "b".to_string(),
        };
        let src = format!(".equ a = {}\n.equ b = {}\n.dw a\n", def(d0), def(d1));
        s.note_s("api_source", &src);
        // run in a child thread with the default 2 MiB thread stack: stack exhaustion kills the whole process
        // (SIGSEGV/abort), which the runner sees as a non-zero, non-protocol exit status
        let h = std::thread::Builder::new()
            .stack_size(2 * 1024 * 1024)
            .spawn(move || {
                let r = avra_lib::builder::build_str(&src);
                r.is_ok()
            })
            .unwrap();
        let ok = h.join();
        s.note_s("api_result", &format!("{:?}", ok));
        chk!(s, ok.is_ok(), "C16: evaluation of a cyclic .equ panicked");
    }
}

/// Context whose `.equ` table holds `a` and `b` with symbolic definitions (no container).
pub struct EquCtx {
    pub d0: u8,
    pub d1: u8,
    pub v: i64,
}

impl avra_lib::context::Context for EquCtx {
    fn get_define(&self, _n: &String) -> Option<Expr> { None }
    fn get_equ(&self, n: &String) -> Option<Expr> {
        let d = if n.as_bytes() == b"a" { self.d0 } else if n.as_bytes() == b"b" { self.d1 } else { return None };
        Some(match d {
            0 => Expr::Const(self.v),
            1 => Expr::Ident(String::from("a")),
            _ => Expr::Ident(String::from("b")),
        })
    }
    fn get_label(&self, _n: &String) -> Option<(avra_lib::parser::SegmentType, u32)> { None }
    fn get_def(&self, _n: &String) -> Option<avra_lib::instruction::register::Reg8> { None }
    fn get_set(&self, _n: &String) -> Option<Expr> { None }
    fn get_special(&self, _n: &String) -> Option<Expr> { None }
    fn get_device(&self) -> avra_lib::device::Device { avra_lib::device::Device::new(0) }
    fn set_define(&self, _n: String, _v: Expr) -> Option<Expr> { None }
    fn set_equ(&self, _n: String, _v: Expr) -> Option<Expr> { None }
    fn set_label(&self, _n: String, _v: (avra_lib::parser::SegmentType, u32)) -> Option<(avra_lib::parser::SegmentType, u32)> { None }
    fn set_def(&self, _n: String, _v: avra_lib::instruction::register::Reg8) -> Option<avra_lib::instruction::register::Reg8> { None }
    fn set_special(&self, _n: String, _v: Expr) -> Option<Expr> { None }
}
