//! Independent AVR ISA reference (encoder, legality, decoder), written from the
//! "AVR Instruction Set Manual" (Atmel-0856 / DS40002198).  Shares no code with /repo;
//! `Operation`/`BranchT`/`SFlags` are used purely as mnemonic *names*.
use avra_lib::instruction::operation::{BranchT, Operation, SFlags};

/// Operand as written by the programmer.
#[derive(Clone, Copy, PartialEq, Eq, Debug)]
pub enum A {
    /// register r0..r31
    R(u8),
    /// value of a constant expression
    K(i64),
    /// index operand: reg 0=X 1=Y 2=Z; mode 0=plain 1=post-increment 2=pre-decrement 3=+q
    X(u8, u8, i64),
}

#[derive(Clone, Copy, PartialEq, Eq, Debug)]
pub struct Enc {
    pub w0: u16,
    pub w1: Option<u16>,
}

fn one(w0: u16) -> Option<Enc> {
    Some(Enc { w0, w1: None })
}

fn r5(a: &A) -> Option<u16> {
    match a {
        A::R(n) if *n < 32 => Some(*n as u16),
        _ => None,
    }
}

fn k(a: &A) -> Option<i64> {
    match a {
        A::K(v) => Some(*v),
        _ => None,
    }
}

fn k_in(a: &A, lo: i64, hi: i64) -> Option<u16> {
    match a {
        A::K(v) if *v >= lo && *v <= hi => Some(*v as u16),
        _ => None,
    }
}

/// 8-bit immediate: 0..=255, and -128..=-1 in two's complement (the conventional
/// assembler reading of `ldi r16, -1`).  What *must* assemble (C01) is only 0..=255.
fn imm8(a: &A) -> Option<u16> {
    match a {
        A::K(v) if *v >= -128 && *v <= 255 => Some((*v as u16) & 0xff),
        _ => None,
    }
}

/// SREG bit numbers.
pub fn flag_bit(f: SFlags) -> u16 {
    match f {
        SFlags::C => 0,
        SFlags::Z => 1,
        SFlags::N => 2,
        SFlags::V => 3,
        SFlags::S => 4,
        SFlags::H => 5,
        SFlags::T => 6,
        SFlags::I => 7,
    }
}

/// Conditional branch aliases: (branch if *set*?, SREG bit); None for the generic brbs/brbc.
pub fn branch_alias(b: BranchT) -> Option<(bool, u16)> {
    match b {
        BranchT::Eq => Some((true, 1)),
        BranchT::Ne => Some((false, 1)),
        BranchT::Cs => Some((true, 0)),
        BranchT::Cc => Some((false, 0)),
        BranchT::Sh => Some((false, 0)),
        BranchT::Lo => Some((true, 0)),
        BranchT::Mi => Some((true, 2)),
        BranchT::Pl => Some((false, 2)),
        BranchT::Ge => Some((false, 4)),
        BranchT::Lt => Some((true, 4)),
        BranchT::Hs => Some((true, 5)),
        BranchT::Hc => Some((false, 5)),
        BranchT::Ts => Some((true, 6)),
        BranchT::Tc => Some((false, 6)),
        BranchT::Vs => Some((true, 3)),
        BranchT::Vc => Some((false, 3)),
        BranchT::Ie => Some((true, 7)),
        BranchT::Id => Some((false, 7)),
        BranchT::Bs | BranchT::Bc => None,
    }
}

/// signed displacement `target - (addr + 1)` in unbounded arithmetic, if it fits `bits`
pub fn rel_disp(target: i64, addr: u32, bits: u32) -> Option<u16> {
    let d: i128 = target as i128 - (addr as i128 + 1);
    let lo: i128 = -(1i128 << (bits - 1));
    let hi: i128 = (1i128 << (bits - 1)) - 1;
    if d < lo || d > hi {
        None
    } else {
        Some((d as i64 as u16) & ((1u16 << bits) - 1))
    }
}

fn two_reg(base: u16, args: &[A]) -> Option<Enc> {
    if args.len() != 2 {
        return None;
    }
    let d = r5(&args[0])?;
    let r = r5(&args[1])?;
    one(base | ((r & 0x10) << 5) | (d << 4) | (r & 0x0f))
}

fn same_reg(base: u16, args: &[A]) -> Option<Enc> {
    if args.len() != 1 {
        return None;
    }
    let d = r5(&args[0])?;
    one(base | ((d & 0x10) << 5) | (d << 4) | (d & 0x0f))
}

fn one_reg(base: u16, args: &[A]) -> Option<Enc> {
    if args.len() != 1 {
        return None;
    }
    let d = r5(&args[0])?;
    one(base | (d << 4))
}

fn reg_imm(base: u16, args: &[A], complement: bool) -> Option<Enc> {
    if args.len() != 2 {
        return None;
    }
    let d = r5(&args[0])?;
    if d < 16 {
        return None;
    }
    let mut kk = imm8(&args[1])?;
    if complement {
        kk = 0xff - kk;
    }
    one(base | ((kk & 0xf0) << 4) | ((d & 0x0f) << 4) | (kk & 0x0f))
}

fn word_imm(base: u16, args: &[A]) -> Option<Enc> {
    if args.len() != 2 {
        return None;
    }
    let d = r5(&args[0])?;
    if !(d == 24 || d == 26 || d == 28 || d == 30) {
        return None;
    }
    let kk = k_in(&args[1], 0, 63)?;
    one(base | ((kk & 0x30) << 2) | (((d - 24) / 2) << 4) | (kk & 0x0f))
}

fn no_args(w: u16, args: &[A]) -> Option<Enc> {
    if args.is_empty() {
        one(w)
    } else {
        None
    }
}

fn fmul_like(base: u16, args: &[A]) -> Option<Enc> {
    if args.len() != 2 {
        return None;
    }
    let d = r5(&args[0])?;
    let r = r5(&args[1])?;
    if d < 16 || d > 23 || r < 16 || r > 23 {
        return None;
    }
    one(base | ((d & 7) << 4) | (r & 7))
}

fn io_bit(base: u16, args: &[A]) -> Option<Enc> {
    if args.len() != 2 {
        return None;
    }
    let a = k_in(&args[0], 0, 31)?;
    let b = k_in(&args[1], 0, 7)?;
    one(base | (a << 3) | b)
}

fn reg_bit(base: u16, args: &[A]) -> Option<Enc> {
    if args.len() != 2 {
        return None;
    }
    let d = r5(&args[0])?;
    let b = k_in(&args[1], 0, 7)?;
    one(base | (d << 4) | b)
}

/// ld/ldd (store = false) and st/std (store = true); `reg_first` tells the operand order.
/// Lenient on the ld-vs-ldd spelling: either mnemonic with any index form denotes the ISA
/// instruction with that addressing mode (what is *required* to assemble is decided by
/// `strict_mem_form`).
fn mem(store: bool, args: &[A]) -> Option<Enc> {
    if args.len() != 2 {
        return None;
    }
    let (ra, xa) = if store { (&args[1], &args[0]) } else { (&args[0], &args[1]) };
    let d = r5(ra)?;
    let st = if store { 0x0200 } else { 0 };
    match xa {
        A::X(reg, mode, q) if *reg < 3 => {
            let w = match (*reg, *mode) {
                (0, 0) => 0x900c,
                (0, 1) => 0x900d,
                (0, 2) => 0x900e,
                (1, 0) => 0x8008,
                (1, 1) => 0x9009,
                (1, 2) => 0x900a,
                (2, 0) => 0x8000,
                (2, 1) => 0x9001,
                (2, 2) => 0x9002,
                (1, 3) | (2, 3) => {
                    if *q < 0 || *q > 63 {
                        return None;
                    }
                    let q = *q as u16;
                    0x8000
                        | if *reg == 1 { 0x0008 } else { 0 }
                        | ((q & 0x20) << 8)
                        | ((q & 0x18) << 7)
                        | (q & 0x07)
                }
                _ => return None,
            };
            one(w | st | (d << 4))
        }
        _ => None,
    }
}

/// The forms the ISA manual lists for each spelling (the domain C01 requires to assemble).
pub fn strict_mem_form(op: &Operation, x: &A) -> bool {
    match (op, x) {
        (Operation::Ld, A::X(_, m, _)) | (Operation::St, A::X(_, m, _)) => *m <= 2,
        (Operation::Ldd, A::X(r, m, _)) | (Operation::Std, A::X(r, m, _)) => *m == 3 && *r != 0,
        _ => false,
    }
}

fn lpm_like(elpm: bool, args: &[A]) -> Option<Enc> {
    if args.is_empty() {
        return one(if elpm { 0x95d8 } else { 0x95c8 });
    }
    if args.len() != 2 {
        return None;
    }
    let d = r5(&args[0])?;
    let low = match &args[1] {
        A::X(2, 0, _) => 0x4,
        A::X(2, 1, _) => 0x5,
        _ => return None,
    };
    one(0x9000 | (d << 4) | low | if elpm { 0x2 } else { 0 })
}

fn direct_mem(store: bool, args: &[A], avr8l: bool) -> Option<Enc> {
    if args.len() != 2 {
        return None;
    }
    let (ra, ka) = if store { (&args[1], &args[0]) } else { (&args[0], &args[1]) };
    let d = r5(ra)?;
    if avr8l {
        // 1010 0kkk dddd kkkk / 1010 1kkk dddd kkkk ; d = r16..r31 ; k = 0x40..0xbf
        // ADDR[7:0] = (~INST[8], INST[8], INST[10], INST[9], INST[3..0])
        if d < 16 {
            return None;
        }
        let kk = k_in(ka, 0x40, 0xbf)?;
        let w = if store { 0xa800 } else { 0xa000 }
            | (((kk >> 6) & 1) << 8)
            | (((kk >> 5) & 1) << 10)
            | (((kk >> 4) & 1) << 9)
            | ((d & 0x0f) << 4)
            | (kk & 0x0f);
        one(w)
    } else {
        let kk = k_in(ka, 0, 65535)?;
        Some(Enc { w0: if store { 0x9200 } else { 0x9000 } | (d << 4), w1: Some(kk) })
    }
}

fn long_jump(base: u16, args: &[A]) -> Option<Enc> {
    if args.len() != 1 {
        return None;
    }
    let v = k(&args[0])?;
    if v < 0 || v > 0x3f_ffff {
        return None;
    }
    let hi = ((v >> 16) & 0x3f) as u16;
    Some(Enc { w0: base | ((hi & 0x3e) << 3) | (hi & 1), w1: Some((v & 0xffff) as u16) })
}

/// Reference encoding; `None` = the ISA cannot encode this mnemonic with these operands.
pub fn ref_encode(op: &Operation, args: &[A], addr: u32, avr8l: bool) -> Option<Enc> {
    match op {
        Operation::Add => two_reg(0x0c00, args),
        Operation::Adc => two_reg(0x1c00, args),
        Operation::Sub => two_reg(0x1800, args),
        Operation::Sbc => two_reg(0x0800, args),
        Operation::And => two_reg(0x2000, args),
        Operation::Or => two_reg(0x2800, args),
        Operation::Eor => two_reg(0x2400, args),
        Operation::Cpse => two_reg(0x1000, args),
        Operation::Cp => two_reg(0x1400, args),
        Operation::Cpc => two_reg(0x0400, args),
        Operation::Mov => two_reg(0x2c00, args),
        Operation::Mul => two_reg(0x9c00, args),
        Operation::Adiw => word_imm(0x9600, args),
        Operation::Sbiw => word_imm(0x9700, args),
        Operation::Subi => reg_imm(0x5000, args, false),
        Operation::Sbci => reg_imm(0x4000, args, false),
        Operation::Andi => reg_imm(0x7000, args, false),
        Operation::Ori => reg_imm(0x6000, args, false),
        Operation::Sbr => reg_imm(0x6000, args, false),
        Operation::Cbr => reg_imm(0x7000, args, true),
        Operation::Cpi => reg_imm(0x3000, args, false),
        Operation::Ldi => reg_imm(0xe000, args, false),
        Operation::Com => one_reg(0x9400, args),
        Operation::Neg => one_reg(0x9401, args),
        Operation::Inc => one_reg(0x9403, args),
        Operation::Dec => one_reg(0x940a, args),
        Operation::Push => one_reg(0x920f, args),
        Operation::Pop => one_reg(0x900f, args),
        Operation::Lsr => one_reg(0x9406, args),
        Operation::Ror => one_reg(0x9407, args),
        Operation::Asr => one_reg(0x9405, args),
        Operation::Swap => one_reg(0x9402, args),
        Operation::Tst => same_reg(0x2000, args),
        Operation::Clr => same_reg(0x2400, args),
        Operation::Lsl => same_reg(0x0c00, args),
        Operation::Rol => same_reg(0x1c00, args),
        Operation::Ser => {
            if args.len() != 1 {
                return None;
            }
            let d = r5(&args[0])?;
            if d < 16 {
                return None;
            }
            one(0xef0f | ((d & 0x0f) << 4))
        }
        Operation::Muls => {
            if args.len() != 2 {
                return None;
            }
            let d = r5(&args[0])?;
            let r = r5(&args[1])?;
            if d < 16 || r < 16 {
                return None;
            }
            one(0x0200 | ((d & 0x0f) << 4) | (r & 0x0f))
        }
        Operation::Mulsu => fmul_like(0x0300, args),
        Operation::Fmul => fmul_like(0x0308, args),
        Operation::Fmuls => fmul_like(0x0380, args),
        Operation::Fmulsu => fmul_like(0x0388, args),
        Operation::Rjmp | Operation::Rcall => {
            if args.len() != 1 {
                return None;
            }
            let t = k(&args[0])?;
            let f = rel_disp(t, addr, 12)?;
            one(if let Operation::Rjmp = op { 0xc000 } else { 0xd000 } | f)
        }
        Operation::Ijmp => no_args(0x9409, args),
        Operation::Eijmp => no_args(0x9419, args),
        Operation::Icall => no_args(0x9509, args),
        Operation::Eicall => no_args(0x9519, args),
        Operation::Ret => no_args(0x9508, args),
        Operation::Reti => no_args(0x9518, args),
        Operation::Jmp => long_jump(0x940c, args),
        Operation::Call => long_jump(0x940e, args),
        Operation::Br(b) => {
            let (set, bit, targ) = match branch_alias(*b) {
                Some((set, bit)) => {
                    if args.len() != 1 {
                        return None;
                    }
                    (set, bit, &args[0])
                }
                None => {
                    if args.len() != 2 {
                        return None;
                    }
                    let bit = k_in(&args[0], 0, 7)?;
                    (matches!(b, BranchT::Bs), bit, &args[1])
                }
            };
            let t = k(targ)?;
            let f = rel_disp(t, addr, 7)?;
            one(if set { 0xf000 } else { 0xf400 } | (f << 3) | bit)
        }
        Operation::Sbic => io_bit(0x9900, args),
        Operation::Sbis => io_bit(0x9b00, args),
        Operation::Cbi => io_bit(0x9800, args),
        Operation::Sbi => io_bit(0x9a00, args),
        Operation::Sbrc => reg_bit(0xfc00, args),
        Operation::Sbrs => reg_bit(0xfe00, args),
        Operation::Bst => reg_bit(0xfa00, args),
        Operation::Bld => reg_bit(0xf800, args),
        Operation::Movw => {
            if args.len() != 2 {
                return None;
            }
            let d = r5(&args[0])?;
            let r = r5(&args[1])?;
            if d % 2 != 0 || r % 2 != 0 {
                return None;
            }
            one(0x0100 | ((d / 2) << 4) | (r / 2))
        }
        Operation::Lds => direct_mem(false, args, avr8l),
        Operation::Sts => direct_mem(true, args, avr8l),
        Operation::Ld | Operation::Ldd => mem(false, args),
        Operation::St | Operation::Std => mem(true, args),
        Operation::Lpm => lpm_like(false, args),
        Operation::Elpm => lpm_like(true, args),
        Operation::Spm => no_args(0x95e8, args),
        Operation::In => {
            if args.len() != 2 {
                return None;
            }
            let d = r5(&args[0])?;
            let a = k_in(&args[1], 0, 63)?;
            one(0xb000 | ((a & 0x30) << 5) | (d << 4) | (a & 0x0f))
        }
        Operation::Out => {
            if args.len() != 2 {
                return None;
            }
            let a = k_in(&args[0], 0, 63)?;
            let r = r5(&args[1])?;
            one(0xb800 | ((a & 0x30) << 5) | (r << 4) | (a & 0x0f))
        }
        Operation::Bset | Operation::Bclr => {
            if args.len() != 1 {
                return None;
            }
            let s = k_in(&args[0], 0, 7)?;
            one(if let Operation::Bset = op { 0x9408 } else { 0x9488 } | (s << 4))
        }
        Operation::Se(f) => no_args(0x9408 | (flag_bit(*f) << 4), args),
        Operation::Cl(f) => no_args(0x9488 | (flag_bit(*f) << 4), args),
        Operation::Break => no_args(0x9598, args),
        Operation::Nop => no_args(0x0000, args),
        Operation::Sleep => no_args(0x9588, args),
        Operation::Wdr => no_args(0x95a8, args),
        Operation::Custom(_) => None,
    }
}

// ------------------------------------------------------------------------------------------
// Independent decoder (mask/match table): used to state "decodes back to what was written".

/// Canonical (alias-free) instruction identity.
#[derive(Clone, Copy, PartialEq, Eq, Debug)]
pub enum Dec {
    /// two-register ALU group: (base opcode, d, r)
    RR(u16, u16, u16),
    /// register-immediate group: (base opcode, d, K)
    RI(u16, u16, u16),
    /// adiw/sbiw (base, d, K)
    WI(u16, u16, u16),
    /// single register group (full opcode with d = 0, d)
    R1(u16, u16),
    /// fixed words
    Fixed(u16),
    Muls(u16, u16),
    /// mulsu / fmul / fmuls / fmulsu : (base, d, r)
    FMul(u16, u16, u16),
    /// rjmp / rcall (base, signed displacement)
    Rel12(u16, i16),
    /// brbs / brbc (set?, bit, signed displacement)
    Br(bool, u16, i16),
    /// jmp / call (base, k22)
    Long(u16, u32),
    /// sbic sbis cbi sbi (base, A, b)
    IoBit(u16, u16, u16),
    /// sbrc sbrs bst bld (base, r, b)
    RegBit(u16, u16, u16),
    Movw(u16, u16),
    /// lds/sts 32-bit (store?, d, k16)
    Direct(bool, u16, u16),
    /// lds/sts 16-bit (store?, d, k7 as data address)
    Direct16(bool, u16, u16),
    /// ld/st/ldd/std (store?, d, reg16, mode, q)
    Mem(bool, u16, u8, u8, u16),
    /// lpm/elpm Rd, Z(+)  (elpm?, d, postinc?)
    Lpm(bool, u16, bool),
    /// in/out (out?, reg, A)
    Io(bool, u16, u16),
    /// bset/bclr (clear?, s)
    Flag(bool, u16),
    Unknown,
}

fn sext(v: u16, bits: u32) -> i16 {
    let sh = 16 - bits;
    ((v << sh) as i16) >> sh
}

/// Decode one instruction from `w0` (and `w1` for two-word forms).
pub fn ref_decode(w0: u16, w1: Option<u16>, avr8l: bool) -> Dec {
    let d5 = (w0 >> 4) & 0x1f;
    let r5v = ((w0 >> 5) & 0x10) | (w0 & 0x0f);
    // fixed encodings first
    match w0 {
        0x0000 | 0x9409 | 0x9419 | 0x9509 | 0x9519 | 0x9508 | 0x9518 | 0x95c8 | 0x95d8
        | 0x95e8 | 0x9598 | 0x9588 | 0x95a8 => return Dec::Fixed(w0),
        _ => {}
    }
    if w0 & 0xff00 == 0x0100 {
        return Dec::Movw(((w0 >> 4) & 0xf) * 2, (w0 & 0xf) * 2);
    }
    if w0 & 0xff00 == 0x0200 {
        return Dec::Muls(16 + ((w0 >> 4) & 0xf), 16 + (w0 & 0xf));
    }
    if w0 & 0xff00 == 0x0300 {
        return Dec::FMul(w0 & 0xff88, 16 + ((w0 >> 4) & 7), 16 + (w0 & 7));
    }
    match w0 & 0xfc00 {
        0x0400 | 0x0800 | 0x0c00 | 0x1000 | 0x1400 | 0x1800 | 0x1c00 | 0x2000 | 0x2400
        | 0x2800 | 0x2c00 | 0x9c00 => return Dec::RR(w0 & 0xfc00, d5, r5v),
        _ => {}
    }
    match w0 & 0xf000 {
        0x3000 | 0x4000 | 0x5000 | 0x6000 | 0x7000 | 0xe000 => {
            return Dec::RI(w0 & 0xf000, 16 + ((w0 >> 4) & 0xf), ((w0 >> 4) & 0xf0) | (w0 & 0xf))
        }
        0xc000 | 0xd000 => return Dec::Rel12(w0 & 0xf000, sext(w0 & 0x0fff, 12)),
        _ => {}
    }
    if avr8l && w0 & 0xf000 == 0xa000 {
        let k6 = (w0 >> 8) & 1;
        let kk = ((1 - k6) << 7)
            | (k6 << 6)
            | (((w0 >> 10) & 1) << 5)
            | (((w0 >> 9) & 1) << 4)
            | (w0 & 0xf);
        return Dec::Direct16(w0 & 0x0800 != 0, 16 + ((w0 >> 4) & 0xf), kk);
    }
    if w0 & 0xd000 == 0x8000 {
        // ldd/std with displacement (covers ld/st Y and Z with q = 0)
        let q = ((w0 >> 8) & 0x20) | ((w0 >> 7) & 0x18) | (w0 & 0x07);
        let reg = if w0 & 0x0008 != 0 { 1 } else { 2 };
        let store = w0 & 0x0200 != 0;
        return if q == 0 { Dec::Mem(store, d5, reg, 0, 0) } else { Dec::Mem(store, d5, reg, 3, q) };
    }
    if w0 & 0xfe00 == 0x9600 {
        return Dec::WI(w0 & 0xff00, 24 + ((w0 >> 4) & 3) * 2, ((w0 >> 2) & 0x30) | (w0 & 0xf));
    }
    if w0 & 0xfc00 == 0x9000 {
        let store = w0 & 0x0200 != 0;
        match w0 & 0x000f {
            0x0 => {
                return match w1 {
                    Some(k16) => Dec::Direct(store, d5, k16),
                    None => Dec::Unknown,
                }
            }
            0x1 => return Dec::Mem(store, d5, 2, 1, 0),
            0x2 => return Dec::Mem(store, d5, 2, 2, 0),
            0x9 => return Dec::Mem(store, d5, 1, 1, 0),
            0xa => return Dec::Mem(store, d5, 1, 2, 0),
            0xc => return Dec::Mem(store, d5, 0, 0, 0),
            0xd => return Dec::Mem(store, d5, 0, 1, 0),
            0xe => return Dec::Mem(store, d5, 0, 2, 0),
            0xf => return Dec::R1(w0 & 0xfe0f, d5),
            0x4 | 0x5 | 0x6 | 0x7 if !store => {
                return Dec::Lpm(w0 & 0x2 != 0, d5, w0 & 0x1 != 0)
            }
            _ => return Dec::Unknown,
        }
    }
    if w0 & 0xfe00 == 0x9400 {
        match w0 & 0x000f {
            0x0 | 0x1 | 0x2 | 0x3 | 0x5 | 0x6 | 0x7 | 0xa => return Dec::R1(w0 & 0xfe0f, d5),
            0x8 if w0 & 0xff0f == 0x9408 => return Dec::Flag(w0 & 0x0080 != 0, (w0 >> 4) & 7),
            0xc | 0xd | 0xe | 0xf => {
                return match w1 {
                    Some(lo) => Dec::Long(
                        w0 & 0xfe0e,
                        ((((w0 >> 3) & 0x3e) | (w0 & 1)) as u32) << 16 | lo as u32,
                    ),
                    None => Dec::Unknown,
                }
            }
            _ => return Dec::Unknown,
        }
    }
    if w0 & 0xfc00 == 0x9800 {
        return Dec::IoBit(w0 & 0xff00, (w0 >> 3) & 0x1f, w0 & 7);
    }
    if w0 & 0xf000 == 0xb000 {
        return Dec::Io(w0 & 0x0800 != 0, d5, ((w0 >> 5) & 0x30) | (w0 & 0xf));
    }
    if w0 & 0xf800 == 0xf000 {
        return Dec::Br(w0 & 0x0400 == 0, w0 & 7, sext((w0 >> 3) & 0x7f, 7));
    }
    if w0 & 0xf808 == 0xf800 {
        return Dec::RegBit(w0 & 0xfe00, d5, w0 & 7);
    }
    Dec::Unknown
}

/// What the decoder must give back for "what was written" (alias resolved to its canonical
/// instruction).  Only defined on legal operand tuples.
pub fn canon(op: &Operation, args: &[A], addr: u32, avr8l: bool) -> Dec {
    let r = |i: usize| -> u16 {
        match args[i] {
            A::R(n) => n as u16,
            _ => 0xffff,
        }
    };
    let kv = |i: usize| -> i64 {
        match args[i] {
            A::K(v) => v,
            _ => -1,
        }
    };
    let rr = |b: u16| Dec::RR(b, r(0), r(1));
    let ri = |b: u16| Dec::RI(b, r(0), (kv(1) as u16) & 0xff);
    let r1 = |w: u16| Dec::R1(w, r(0));
    let disp = |t: i64| -> i16 { (t as i128 - (addr as i128 + 1)) as i16 };
    match op {
        Operation::Add => rr(0x0c00),
        Operation::Adc => rr(0x1c00),
        Operation::Sub => rr(0x1800),
        Operation::Sbc => rr(0x0800),
        Operation::And => rr(0x2000),
        Operation::Or => rr(0x2800),
        Operation::Eor => rr(0x2400),
        Operation::Cpse => rr(0x1000),
        Operation::Cp => rr(0x1400),
        Operation::Cpc => rr(0x0400),
        Operation::Mov => rr(0x2c00),
        Operation::Mul => rr(0x9c00),
        Operation::Tst => Dec::RR(0x2000, r(0), r(0)),
        Operation::Clr => Dec::RR(0x2400, r(0), r(0)),
        Operation::Lsl => Dec::RR(0x0c00, r(0), r(0)),
        Operation::Rol => Dec::RR(0x1c00, r(0), r(0)),
        Operation::Adiw => Dec::WI(0x9600, r(0), kv(1) as u16),
        Operation::Sbiw => Dec::WI(0x9700, r(0), kv(1) as u16),
        Operation::Subi => ri(0x5000),
        Operation::Sbci => ri(0x4000),
        Operation::Andi => ri(0x7000),
        Operation::Ori | Operation::Sbr => ri(0x6000),
        Operation::Cbr => Dec::RI(0x7000, r(0), 0xff - ((kv(1) as u16) & 0xff)),
        Operation::Cpi => ri(0x3000),
        Operation::Ldi => ri(0xe000),
        Operation::Ser => Dec::RI(0xe000, r(0), 0xff),
        Operation::Com => r1(0x9400),
        Operation::Neg => r1(0x9401),
        Operation::Inc => r1(0x9403),
        Operation::Dec => r1(0x940a),
        Operation::Push => r1(0x920f),
        Operation::Pop => r1(0x900f),
        Operation::Lsr => r1(0x9406),
        Operation::Ror => r1(0x9407),
        Operation::Asr => r1(0x9405),
        Operation::Swap => r1(0x9402),
        Operation::Muls => Dec::Muls(r(0), r(1)),
        Operation::Mulsu => Dec::FMul(0x0300, r(0), r(1)),
        Operation::Fmul => Dec::FMul(0x0308, r(0), r(1)),
        Operation::Fmuls => Dec::FMul(0x0380, r(0), r(1)),
        Operation::Fmulsu => Dec::FMul(0x0388, r(0), r(1)),
        Operation::Rjmp => Dec::Rel12(0xc000, disp(kv(0))),
        Operation::Rcall => Dec::Rel12(0xd000, disp(kv(0))),
        Operation::Ijmp => Dec::Fixed(0x9409),
        Operation::Eijmp => Dec::Fixed(0x9419),
        Operation::Icall => Dec::Fixed(0x9509),
        Operation::Eicall => Dec::Fixed(0x9519),
        Operation::Ret => Dec::Fixed(0x9508),
        Operation::Reti => Dec::Fixed(0x9518),
        Operation::Jmp => Dec::Long(0x940c, kv(0) as u32),
        Operation::Call => Dec::Long(0x940e, kv(0) as u32),
        Operation::Br(b) => match branch_alias(*b) {
            Some((set, bit)) => Dec::Br(set, bit, disp(kv(0))),
            None => Dec::Br(matches!(b, BranchT::Bs), kv(0) as u16, disp(kv(1))),
        },
        Operation::Sbic => Dec::IoBit(0x9900, kv(0) as u16, kv(1) as u16),
        Operation::Sbis => Dec::IoBit(0x9b00, kv(0) as u16, kv(1) as u16),
        Operation::Cbi => Dec::IoBit(0x9800, kv(0) as u16, kv(1) as u16),
        Operation::Sbi => Dec::IoBit(0x9a00, kv(0) as u16, kv(1) as u16),
        Operation::Sbrc => Dec::RegBit(0xfc00, r(0), kv(1) as u16),
        Operation::Sbrs => Dec::RegBit(0xfe00, r(0), kv(1) as u16),
        Operation::Bst => Dec::RegBit(0xfa00, r(0), kv(1) as u16),
        Operation::Bld => Dec::RegBit(0xf800, r(0), kv(1) as u16),
        Operation::Movw => Dec::Movw(r(0), r(1)),
        Operation::Lds => {
            if avr8l { Dec::Direct16(false, r(0), kv(1) as u16) } else { Dec::Direct(false, r(0), kv(1) as u16) }
        }
        Operation::Sts => {
            if avr8l { Dec::Direct16(true, r(1), kv(0) as u16) } else { Dec::Direct(true, r(1), kv(0) as u16) }
        }
        Operation::Ld | Operation::Ldd | Operation::St | Operation::Std => {
            let store = matches!(op, Operation::St | Operation::Std);
            let (ri, xi) = if store { (1, 0) } else { (0, 1) };
            match args[xi] {
                // `Y+0`/`Z+0` and plain `Y`/`Z` are the same instruction
                A::X(reg, 3, 0) => Dec::Mem(store, r(ri), reg, 0, 0),
                A::X(reg, 3, q) => Dec::Mem(store, r(ri), reg, 3, q as u16),
                A::X(reg, m, _) => Dec::Mem(store, r(ri), reg, m, 0),
                _ => Dec::Unknown,
            }
        }
        Operation::Lpm | Operation::Elpm => {
            let e = matches!(op, Operation::Elpm);
            if args.is_empty() {
                Dec::Fixed(if e { 0x95d8 } else { 0x95c8 })
            } else {
                match args[1] {
                    A::X(2, m, _) => Dec::Lpm(e, r(0), m == 1),
                    _ => Dec::Unknown,
                }
            }
        }
        Operation::Spm => Dec::Fixed(0x95e8),
        Operation::In => Dec::Io(false, r(0), kv(1) as u16),
        Operation::Out => Dec::Io(true, r(1), kv(0) as u16),
        Operation::Bset => Dec::Flag(false, kv(0) as u16),
        Operation::Bclr => Dec::Flag(true, kv(0) as u16),
        Operation::Se(f) => Dec::Flag(false, flag_bit(*f)),
        Operation::Cl(f) => Dec::Flag(true, flag_bit(*f)),
        Operation::Break => Dec::Fixed(0x9598),
        Operation::Nop => Dec::Fixed(0x0000),
        Operation::Sleep => Dec::Fixed(0x9588),
        Operation::Wdr => Dec::Fixed(0x95a8),
        Operation::Custom(_) => Dec::Unknown,
    }
}

/// Expected length in words.
pub fn ref_len(op: &Operation, avr8l: bool) -> u32 {
    match op {
        Operation::Jmp | Operation::Call => 2,
        Operation::Lds | Operation::Sts => {
            if avr8l { 1 } else { 2 }
        }
        _ => 1,
    }
}
