//! Harness-side implementation of the crate's public `Context` trait: lets symbols, the
//! special `pc`, a register alias and the device class be symbolic without any container.
use avra_lib::context::Context;
use avra_lib::device::{Device, DisabledOptions};
use avra_lib::expr::Expr;
use avra_lib::instruction::register::Reg8;
use avra_lib::parser::SegmentType;

/// Which table binds the symbol named `s` (convenience for single-binding harnesses).
#[derive(Clone, Copy, PartialEq, Eq)]
pub enum Tab {
    None,
    Define,
    Equ,
    Set,
    Special,
    Label,
}

pub struct Ctx {
    /// reduced core (one-word lds/sts)
    pub avr8l: bool,
    /// bindings of the identifier "s", one slot per symbol table
    pub s_define: Option<i64>,
    pub s_equ: Option<i64>,
    pub s_set: Option<i64>,
    pub s_special: Option<i64>,
    pub s_label: Option<u32>,
    /// value of the special symbol "pc" (what pass 2 installs), if any
    pub pc: Option<i64>,
    /// `.def a = rN`
    pub alias: Option<u8>,
}

impl Ctx {
    pub fn plain() -> Ctx {
        Ctx {
            avr8l: false,
            s_define: None,
            s_equ: None,
            s_set: None,
            s_special: None,
            s_label: None,
            pc: None,
            alias: None,
        }
    }

    /// context with `s` bound in one table
    pub fn with(avr8l: bool, tab: Tab, val: i64, pc: Option<i64>) -> Ctx {
        let mut c = Ctx::plain();
        c.avr8l = avr8l;
        c.pc = pc;
        match tab {
            Tab::None => {}
            Tab::Define => c.s_define = Some(val),
            Tab::Equ => c.s_equ = Some(val),
            Tab::Set => c.s_set = Some(val),
            Tab::Special => c.s_special = Some(val),
            Tab::Label => c.s_label = Some(val as u32),
        }
        c
    }
}

pub fn reg(n: u8) -> Reg8 {
    // independent of the declaration order only through this table
    match n & 31 {
        0 => Reg8::R0, 1 => Reg8::R1, 2 => Reg8::R2, 3 => Reg8::R3,
        4 => Reg8::R4, 5 => Reg8::R5, 6 => Reg8::R6, 7 => Reg8::R7,
        8 => Reg8::R8, 9 => Reg8::R9, 10 => Reg8::R10, 11 => Reg8::R11,
        12 => Reg8::R12, 13 => Reg8::R13, 14 => Reg8::R14, 15 => Reg8::R15,
        16 => Reg8::R16, 17 => Reg8::R17, 18 => Reg8::R18, 19 => Reg8::R19,
        20 => Reg8::R20, 21 => Reg8::R21, 22 => Reg8::R22, 23 => Reg8::R23,
        24 => Reg8::R24, 25 => Reg8::R25, 26 => Reg8::R26, 27 => Reg8::R27,
        28 => Reg8::R28, 29 => Reg8::R29, 30 => Reg8::R30, _ => Reg8::R31,
    }
}

pub fn device(avr8l: bool) -> Device {
    let mut d = Device::new(0);
    if avr8l {
        d.disable_opts.insert(DisabledOptions::Avr8l);
    }
    d
}

fn is(name: &String, lit: &str) -> bool {
    name.as_bytes() == lit.as_bytes()
}

impl Context for Ctx {
    fn get_define(&self, n: &String) -> Option<Expr> {
        match self.s_define {
            Some(v) if is(n, "s") => Some(Expr::Const(v)),
            _ => None,
        }
    }
    fn get_equ(&self, n: &String) -> Option<Expr> {
        match self.s_equ {
            Some(v) if is(n, "s") => Some(Expr::Const(v)),
            _ => None,
        }
    }
    fn get_label(&self, n: &String) -> Option<(SegmentType, u32)> {
        match self.s_label {
            Some(v) if is(n, "s") => Some((SegmentType::Code, v)),
            _ => None,
        }
    }
    fn get_def(&self, n: &String) -> Option<Reg8> {
        match self.alias {
            Some(r) if is(n, "a") => Some(reg(r)),
            _ => None,
        }
    }
    fn get_set(&self, n: &String) -> Option<Expr> {
        match self.s_set {
            Some(v) if is(n, "s") => Some(Expr::Const(v)),
            _ => None,
        }
    }
    fn get_special(&self, n: &String) -> Option<Expr> {
        match self.pc {
            Some(pc) if is(n, "pc") => return Some(Expr::Const(pc)),
            _ => {}
        }
        match self.s_special {
            Some(v) if is(n, "s") => Some(Expr::Const(v)),
            _ => None,
        }
    }
    fn get_device(&self) -> Device {
        device(self.avr8l)
    }
    fn set_define(&self, _n: String, _v: Expr) -> Option<Expr> { None }
    fn set_equ(&self, _n: String, _v: Expr) -> Option<Expr> { None }
    fn set_label(&self, _n: String, _v: (SegmentType, u32)) -> Option<(SegmentType, u32)> { None }
    fn set_def(&self, _n: String, _v: Reg8) -> Option<Reg8> { None }
    fn set_special(&self, _n: String, _v: Expr) -> Option<Expr> { None }
}
