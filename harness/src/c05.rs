//! C05: `Expr::run` (the real code, no leaf stubs) against an independent reference evaluator.
use crate::ctx::{Ctx, Tab};
use crate::roles::*;
use crate::src::Src;
use crate::{chk, cov};
use avra_lib::expr::{BinaryExpr, BinaryOperator, Expr, UnaryExpr, UnaryOperator};

// BEGIN-EXPR-NAMES (compared by the runner with the enum variants scanned from /repo)
pub const BIN_NAMES: [&str; 18] = [
    "Add", "Sub", "Mul", "Div", "Rem", "BitwiseAnd", "BitwiseXor", "BitwiseOr", "ShiftLeft",
    "ShiftRight", "LessThan", "LessOrEqual", "GreaterThan", "GreaterOrEqual", "Equal", "NotEqual",
    "LogicalAnd", "LogicalOr",
];
pub const UN_NAMES: [&str; 3] = ["Minus", "BitwiseNot", "LogicalNot"];
// END-EXPR-NAMES
pub const FUNC_NAMES: [&str; 10] =
    ["low", "high", "byte2", "byte3", "byte4", "lwrd", "hwrd", "exp2", "page", "log2"];

pub fn bin_at(i: u8) -> BinaryOperator {
    match i {
        0 => BinaryOperator::Add,
        1 => BinaryOperator::Sub,
        2 => BinaryOperator::Mul,
        3 => BinaryOperator::Div,
        4 => BinaryOperator::Rem,
        5 => BinaryOperator::BitwiseAnd,
        6 => BinaryOperator::BitwiseXor,
        7 => BinaryOperator::BitwiseOr,
        8 => BinaryOperator::ShiftLeft,
        9 => BinaryOperator::ShiftRight,
        10 => BinaryOperator::LessThan,
        11 => BinaryOperator::LessOrEqual,
        12 => BinaryOperator::GreaterThan,
        13 => BinaryOperator::GreaterOrEqual,
        14 => BinaryOperator::Equal,
        15 => BinaryOperator::NotEqual,
        16 => BinaryOperator::LogicalAnd,
        _ => BinaryOperator::LogicalOr,
    }
}

pub fn un_at(i: u8) -> UnaryOperator {
    match i {
        0 => UnaryOperator::Minus,
        1 => UnaryOperator::BitwiseNot,
        _ => UnaryOperator::LogicalNot,
    }
}

/// What the operator table demands.
#[derive(Clone, Copy, PartialEq, Eq, Debug)]
pub enum Want {
    /// exactly this value
    Val(i64),
    /// the build must fail
    Fail,
    /// either a failure or this value is acceptable (corner the table leaves open)
    FailOr(i64),
}

pub fn accepts(w: Want, got: &Result<i64, avra_lib::expr::ExprRunError>) -> bool {
    match (w, got) {
        (Want::Val(v), Ok(g)) => *g == v,
        (Want::Val(_), Err(_)) => false,
        (Want::Fail, Ok(_)) => false,
        (Want::Fail, Err(_)) => true,
        (Want::FailOr(v), Ok(g)) => *g == v,
        (Want::FailOr(_), Err(_)) => true,
    }
}

fn opt(v: Option<i64>) -> Want {
    match v {
        Some(v) => Want::Val(v),
        None => Want::Fail,
    }
}

/// Reference semantics of the 18 binary operators on 64-bit signed integers.
/// `checked_*` from core are the *specification* of "overflow fails the build".
pub fn ref_bin(op: u8, a: i64, b: i64) -> Want {
    match op {
        0 => opt(a.checked_add(b)),
        1 => opt(a.checked_sub(b)),
        2 => opt(a.checked_mul(b)),
        3 => {
            if b == 0 {
                Want::Fail
            } else {
                opt(a.checked_div(b))
            }
        }
        4 => {
            if b == 0 {
                Want::Fail
            } else if a == i64::MIN && b == -1 {
                // the mathematical remainder is 0; the quotient overflows
                Want::FailOr(0)
            } else {
                Want::Val(a % b)
            }
        }
        5 => Want::Val(a & b),
        6 => Want::Val(a ^ b),
        7 => Want::Val(a | b),
        8 => {
            // a shift count outside 0..=63 cannot be carried out on 64-bit integers
            if b < 0 || b > 63 {
                if a == 0 && b >= 0 { Want::FailOr(0) } else { Want::Fail }
            } else {
                let wrapped = ((a as u64) << (b as u32)) as i64;
                if (wrapped >> (b as u32)) == a {
                    Want::Val(wrapped)
                } else {
                    // significant bits are shifted out: the table leaves open whether that is an
                    // overflow (error) or a plain 64-bit shift
                    Want::FailOr(wrapped)
                }
            }
        }
        9 => {
            if b < 0 {
                Want::Fail
            } else if b > 63 {
                Want::FailOr(if a < 0 { -1 } else { 0 })
            } else {
                Want::Val(a >> (b as u32))
            }
        }
        10 => Want::Val((a < b) as i64),
        11 => Want::Val((a <= b) as i64),
        12 => Want::Val((a > b) as i64),
        13 => Want::Val((a >= b) as i64),
        14 => Want::Val((a == b) as i64),
        15 => Want::Val((a != b) as i64),
        16 => Want::Val((a != 0 && b != 0) as i64),
        _ => Want::Val((a != 0 || b != 0) as i64),
    }
}

pub fn ref_un(op: u8, a: i64) -> Want {
    match op {
        0 => opt(a.checked_neg()),
        1 => Want::Val(!a),
        _ => Want::Val((a == 0) as i64),
    }
}

/// byte/word selection functions named in the property; `page`/`log2` are not in the table the
/// property quotes, so only "returns a value or an error, never panics" is demanded of them.
pub fn ref_func(f: u8, x: i64) -> Option<Want> {
    let u = x as u64;
    Some(match f {
        0 => Want::Val((u & 0xff) as i64),
        1 | 2 => Want::Val(((u >> 8) & 0xff) as i64),
        3 => Want::Val(((u >> 16) & 0xff) as i64),
        4 => Want::Val(((u >> 24) & 0xff) as i64),
        5 => Want::Val((u & 0xffff) as i64),
        6 => Want::Val(((u >> 16) & 0xffff) as i64),
        7 => {
            if x < 0 || x > 63 {
                Want::Fail
            } else if x == 63 {
                Want::FailOr(i64::MIN)
            } else {
                Want::Val(1i64 << x)
            }
        }
        _ => return None,
    })
}

fn boxed_bin(l: Expr, op: BinaryOperator, r: Expr) -> Expr {
    Expr::Binary(Box::new(BinaryExpr { left: l, operator: op, right: r }))
}

#[cfg(not(kani))]
fn note_res<S: Src>(s: &mut S, r: &Result<i64, avra_lib::expr::ExprRunError>, w: &str) {
    match r {
        Ok(v) => s.note_s("run", &format!("Ok({})", v)),
        Err(e) => s.note_s("run", &format!("Err({})", e)),
    }
    s.note_s("reference", w);
}

/// Native only: confirm through the public API: `.dq <expr>` and read back the 64-bit value.
#[cfg(not(kani))]
pub fn api_eval(text: &str) -> Option<Result<i64, String>> {
    let src = format!(".dq {}\n", text);
    println!("NOTE: api_source={:?}", src);
    let r = std::panic::catch_unwind(|| avra_lib::builder::build_str(&src));
    match r {
        Err(_) => {
            println!("NOTE: api_result=PANIC");
            None
        }
        Ok(Err(e)) => {
            println!("NOTE: api_result=Err({})", e);
            Some(Err(format!("{}", e)))
        }
        Ok(Ok(br)) => {
            if br.code.len() != 8 {
                println!("NOTE: api_result=Ok(unexpected length {})", br.code.len());
                return Some(Err("length".into()));
            }
            let mut v = 0u64;
            for i in 0..8 {
                v |= (br.code[i] as u64) << (8 * i);
            }
            println!("NOTE: api_result=Ok({})", v as i64);
            Some(Ok(v as i64))
        }
    }
}

#[cfg(not(kani))]
fn api_check(text: &str, w: Want) {
    // operands rendered as non-negative literals only (the grammar has no negative literal)
    match api_eval(text) {
        None => println!("API-CONFIRMED"),
        Some(Ok(v)) => {
            if accepts(w, &Ok(v)) { println!("API-NOT-CONFIRMED") } else { println!("API-CONFIRMED") }
        }
        Some(Err(_)) => {
            let e: Result<i64, avra_lib::expr::ExprRunError> =
                Err(avra_lib::expr::ExprRunError::MissingIdentifier(String::new()));
            if accepts(w, &e) { println!("API-NOT-CONFIRMED") } else { println!("API-CONFIRMED") }
        }
    }
}

pub const OP_TEXT: [&str; 18] =
    ["+", "-", "*", "/", "%", "&", "^", "|", "<<", ">>", "<", "<=", ">", ">=", "==", "!=", "&&", "||"];

/// One binary node over two constants; operator symbolic in lo..hi, operands full 64-bit unless
/// `bits` < 64 (then sign-extended from `bits`, stated in the harness bounds).
pub fn ev_bin<S: Src>(s: &mut S, lo: u8, hi: u8, bits: u32) {
    let op = lo + s.below(hi - lo);
    s.role(H_C05_BIN, op as u32);
    let mut a = s.i64();
    let mut b = s.i64();
    if bits == 8 {
        // "edge" mode: each operand is a boundary value of the 64-bit range or a small
        // (sign-extended 8-bit) value - keeps the overflow corners inside the quick tier
        let edge = |sel: u8| -> i64 {
            match sel {
                0 => i64::MIN,
                1 => i64::MAX,
                2 => i64::MIN + 1,
                3 => 1i64 << 62,
                _ => -(1i64 << 62),
            }
        };
        let ea = s.below(6);
        let eb = s.below(6);
        a = if ea < 5 { edge(ea) } else { (a << 56) >> 56 };
        b = if eb < 5 { edge(eb) } else { (b << 56) >> 56 };
    } else if bits < 64 {
        let sh = 64 - bits;
        a = (a << sh) >> sh;
        b = (b << sh) >> sh;
    }
    let e = boxed_bin(Expr::Const(a), bin_at(op), Expr::Const(b));
    let ctx = Ctx::plain();
    let got = e.run(&ctx);
    let want = ref_bin(op, a, b);
    cov!(got.is_ok(), "!some operand pair evaluates");
    cov!(got.is_err(), "some operand pair is rejected");
    #[cfg(not(kani))]
    {
        s.note("a", a);
        s.note("b", b);
        note_res(s, &got, &format!("{:?}", want));
        if !accepts(want, &got) && a >= 0 && b >= 0 {
            api_check(&format!("{} {} {}", a, OP_TEXT[op as usize], b), want);
        }
    }
    chk!(s, accepts(want, &got), "C05: binary operator result differs from the operator table");
    core::mem::forget(got);
    core::mem::forget(e);
}

/// An undefined name on either side of any binary operator makes the whole expression fail -
/// whatever the value of the other operand (no operator may "short-circuit" an error away).
pub fn ev_bin_unbound<S: Src>(s: &mut S) {
    let op = s.below(18);
    s.role(H_C05_BIN, op as u32);
    let v = s.i64();
    let left_unbound = s.bool();
    let unbound = || Expr::Ident(String::from("u"));
    let e = if left_unbound {
        boxed_bin(unbound(), bin_at(op), Expr::Const(v))
    } else {
        boxed_bin(Expr::Const(v), bin_at(op), unbound())
    };
    let ctx = Ctx::plain();
    let got = e.run(&ctx);
    cov!(got.is_err(), "!undefined operand rejected");
    #[cfg(not(kani))]
    {
        s.note("v", v);
        s.note("left_unbound", left_unbound as i64);
        note_res(s, &got, "Fail");
        if v >= 0 {
            let text = if left_unbound { format!("u {} {}", OP_TEXT[op as usize], v) } else { format!("{} {} u", v, OP_TEXT[op as usize]) };
            api_check(&text, Want::Fail);
        }
    }
    chk!(s, got.is_err(), "C05/C10: an expression with an undefined name evaluated to a value");
    core::mem::forget(got);
    core::mem::forget(e);
}

pub fn ev_un<S: Src>(s: &mut S) {
    let op = s.below(3);
    s.role(H_C05_UN, op as u32);
    let a = s.i64();
    let e = Expr::Unary(Box::new(UnaryExpr { operator: un_at(op), expr: Expr::Const(a) }));
    let ctx = Ctx::plain();
    let got = e.run(&ctx);
    let want = ref_un(op, a);
    cov!(got.is_ok(), "!some operand evaluates");
    #[cfg(not(kani))]
    {
        s.note("a", a);
        note_res(s, &got, &format!("{:?}", want));
        if !accepts(want, &got) && a >= 0 {
            api_check(&format!("{}{}", ["-", "~", "!"][op as usize], a), want);
        }
    }
    chk!(s, accepts(want, &got), "C05: unary operator result differs from the operator table");
    core::mem::forget(got);
    core::mem::forget(e);
}

/// Functions: name chosen by index, every letter's case symbolic.
pub fn ev_func<S: Src>(s: &mut S, lo: u8, hi: u8, max_arg_bits: u32) {
    let f = lo + s.below(hi - lo);
    s.role(H_C05_FUNC, f as u32);
    let mut x = s.i64();
    if max_arg_bits < 64 {
        // only for log2, whose loop runs once per significant bit: small non-negative
        // arguments, or (max_arg_bits == 0) the negative arguments -4..=-1, which take the
        // full 64 iterations
        if max_arg_bits == 0 {
            s.assume(x >= -4 && x <= -1);
        } else {
            s.assume(x >= 0 && x < (1i64 << max_arg_bits));
        }
    }
    let _ = &mut x;
    let mask = s.u8();
    let name_lc: &[u8] = FUNC_NAMES[f as usize].as_bytes();
    let mut name: Vec<u8> = Vec::with_capacity(5);
    let mut i = 0;
    while i < name_lc.len() {
        let c = name_lc[i];
        let upper = (mask >> i) & 1 == 1 && c >= b'a' && c <= b'z';
        name.push(if upper { c - 32 } else { c });
        i += 1;
    }
    let name = unsafe { String::from_utf8_unchecked(name) };
    #[cfg(not(kani))]
    let name_copy = name.clone();
    let e = Expr::Func(Box::new(Expr::Ident(name)), Box::new(Expr::Const(x)));
    let ctx = Ctx::plain();
    let got = e.run(&ctx);
    let want = ref_func(f, x);
    cov!(got.is_ok(), "!some argument evaluates");
    cov!(got.is_ok() && mask != 0, "mixed-case function name");
    #[cfg(not(kani))]
    {
        s.note("x", x);
        s.note_s("name", &name_copy);
        note_res(s, &got, &format!("{:?}", want));
        if let Some(w) = want {
            if !accepts(w, &got) && x >= 0 {
                api_check(&format!("{}({})", name_copy, x), w);
            }
        }
    }
    if let Some(w) = want {
        chk!(s, accepts(w, &got), "C05: function result differs from the documented bit selection");
    }
    core::mem::forget(got);
    core::mem::forget(e);
}

/// Depth-2 trees over the non-multiplicative operators: operand order and error propagation.
/// shape 0: (a op1 b) op2 c      shape 1: a op1 (b op2 c)
pub fn ev_nest<S: Src>(s: &mut S, shape: u8) {
    // operators drawn from: + - & ^ | < <= > >= == != && ||  (indices 0,1,5,6,7,10..=17)
    let pick = |v: u8| -> u8 {
        match v {
            0 => 0,
            1 => 1,
            2 => 5,
            3 => 6,
            4 => 7,
            n => n + 5,
        }
    };
    let op1 = pick(s.below(13));
    let op2 = pick(s.below(13));
    s.role(H_C05_NEST, shape as u32);
    let a = s.i64();
    let b = s.i64();
    let c = s.i64();
    let (e, want) = if shape == 0 {
        let inner = boxed_bin(Expr::Const(a), bin_at(op1), Expr::Const(b));
        let w = match ref_bin(op1, a, b) {
            Want::Val(v) => ref_bin(op2, v, c),
            other => other,
        };
        (boxed_bin(inner, bin_at(op2), Expr::Const(c)), w)
    } else {
        let inner = boxed_bin(Expr::Const(b), bin_at(op2), Expr::Const(c));
        let w = match ref_bin(op2, b, c) {
            Want::Val(v) => ref_bin(op1, a, v),
            other => other,
        };
        (boxed_bin(Expr::Const(a), bin_at(op1), inner), w)
    };
    let ctx = Ctx::plain();
    let got = e.run(&ctx);
    cov!(got.is_ok(), "!some tree evaluates");
    cov!(got.is_err(), "an inner overflow propagates");
    #[cfg(not(kani))]
    {
        s.note("a", a);
        s.note("b", b);
        s.note("c", c);
        s.note("op1", op1 as i64);
        s.note("op2", op2 as i64);
        note_res(s, &got, &format!("{:?}", want));
    }
    chk!(s, accepts(want, &got), "C05: nested expression value differs from the reference");
    core::mem::forget(got);
    core::mem::forget(e);
}

/// Leaf resolved through the context: documented lookup order
/// define > equ > set > special > label; unbound is an error, never 0.
pub fn ev_ident<S: Src>(s: &mut S) {
    let mut ctx = Ctx::plain();
    let vd = s.i64();
    let ve = s.i64();
    let vs = s.i64();
    let vp = s.i64();
    let vl = s.u32();
    let present = s.below(32);
    s.role(H_C05_IDENT, present as u32);
    if present & 1 != 0 {
        ctx.s_define = Some(vd);
    }
    if present & 2 != 0 {
        ctx.s_equ = Some(ve);
    }
    if present & 4 != 0 {
        ctx.s_set = Some(vs);
    }
    if present & 8 != 0 {
        ctx.s_special = Some(vp);
    }
    if present & 16 != 0 {
        ctx.s_label = Some(vl);
    }
    let e = Expr::Ident(String::from("s"));
    let got = e.run(&ctx);
    let want = if present & 1 != 0 {
        Want::Val(vd)
    } else if present & 2 != 0 {
        Want::Val(ve)
    } else if present & 4 != 0 {
        Want::Val(vs)
    } else if present & 8 != 0 {
        Want::Val(vp)
    } else if present & 16 != 0 {
        Want::Val(vl as i64)
    } else {
        Want::Fail
    };
    cov!(got.is_ok(), "!bound symbol evaluates");
    cov!(got.is_err() && present == 0, "unbound symbol is an error");
    #[cfg(not(kani))]
    {
        s.note("present", present as i64);
        note_res(s, &got, &format!("{:?}", want));
    }
    chk!(s, accepts(want, &got), "C05/C10: symbol did not resolve by the documented lookup order");
    // a different, unbound name never resolves
    let other = Expr::Ident(String::from("t"));
    let got2 = other.run(&ctx);
    chk!(s, got2.is_err(), "C10: an unbound name evaluated to a value");
    core::mem::forget(got);
    core::mem::forget(got2);
    core::mem::forget(e);
    core::mem::forget(other);
}

/// The leaf restriction used by the instruction-level harnesses (`stubs::run_leaf`,
/// `stubs::clone_leaf`) agrees with the real `Expr::run` / `Expr::clone` on every leaf.
pub fn leaf_equiv<S: Src>(s: &mut S, form: u8, which: u8) {
    let mut ctx = Ctx::plain();
    let v = s.i64();
    match which {
        1 => ctx.s_define = Some(v),
        2 => ctx.s_equ = Some(v),
        3 => ctx.s_set = Some(v),
        4 => ctx.s_special = Some(v),
        5 => ctx.s_label = Some(v as u32),
        6 => ctx.pc = Some(v),
        _ => {}
    }
    let e = match form {
        0 => Expr::Const(v),
        1 => Expr::Ident(String::from("s")),
        _ => Expr::Ident(String::from("pc")),
    };
    let real = e.run(&ctx);
    let model = crate::stubs::run_leaf(&e, &ctx);
    let same = match (&real, &model) {
        (Ok(a), Ok(b)) => a == b,
        (Err(_), Err(_)) => true,
        _ => false,
    };
    cov!(real.is_ok() || real.is_err(), "!leaf evaluated");
    chk!(s, same, "leaf restriction of Expr::run differs from the real Expr::run");
    core::mem::forget(real);
    core::mem::forget(model);
    core::mem::forget(e);
}
