//! C07 (record construction): `writer::generate_hex_from_segment` through the guarded
//! forwarder `verif_generate_hex_from_segment`.
//!
//! Under Kani `ihex::create_object_file_representation` is replaced by `capture_stub`, which runs
//! an independent *record-level* reader over the records the writer hands to the library and
//! stores its verdict.  In the native replay nothing is stubbed: the real text is produced and
//! parsed by an independent *text-level* Intel HEX reader (checksums included).
use crate::roles::*;
use crate::src::Src;
use crate::{chk, cov};

pub const MAXLEN: usize = 64;

static mut IMG: [u8; MAXLEN] = [0; MAXLEN];
static mut IMG_LEN: usize = 0;
/// 0 = library not called; 1 = records reproduce the image; >= 2 = failure code
static mut VERDICT: u8 = 0;
static mut BIG: bool = false;
static mut BIG_TAIL: [u8; 64] = [0; 64];
/// large images: index of the one data record the reader looks at (symbolic, so the verdict
/// covers every index), usize::MAX = look at all records
static mut BIG_PICK: usize = usize::MAX;

pub const V_OK: u8 = 1;
pub const V_DATA_AFTER_EOF: u8 = 2;
pub const V_OUTSIDE: u8 = 3;
pub const V_TWICE: u8 = 4;
pub const V_WRONG_BYTE: u8 = 5;
pub const V_EOF_NOT_LAST: u8 = 6;
pub const V_MISSING: u8 = 7;
pub const V_NO_EOF: u8 = 8;
pub const V_EMPTY_OR_LONG: u8 = 9;
pub const V_OUT_OF_ORDER: u8 = 10;

/// Record-level reference reader (bitmap of covered addresses, any record order accepted).
fn read_records(records: &[ihex::Record]) -> u8 {
    let len = unsafe { IMG_LEN };
    let mut covered: u64 = 0;
    let mut base: u32 = 0;
    let mut eof = false;
    let n = records.len();
    let mut i = 0;
    while i < n {
        match &records[i] {
            ihex::Record::Data { offset, value } => {
                if eof {
                    return V_DATA_AFTER_EOF;
                }
                // an empty data record is legal Intel HEX (it carries nothing); more than 255
                // bytes cannot be expressed in the length field
                if value.len() > 255 {
                    return V_EMPTY_OR_LONG;
                }
                let mut j = 0;
                while j < value.len() {
                    let addr = base as u64 + *offset as u64 + j as u64;
                    if addr >= len as u64 {
                        return V_OUTSIDE;
                    }
                    let bit = 1u64 << addr;
                    if covered & bit != 0 {
                        return V_TWICE;
                    }
                    if unsafe { IMG[addr as usize] } != value[j] {
                        return V_WRONG_BYTE;
                    }
                    covered |= bit;
                    j += 1;
                }
            }
            ihex::Record::EndOfFile => {
                if eof || i != n - 1 {
                    return V_EOF_NOT_LAST;
                }
                eof = true;
            }
            ihex::Record::ExtendedSegmentAddress(seg) => base = (*seg as u32) << 4,
            ihex::Record::ExtendedLinearAddress(hi) => base = (*hi as u32) << 16,
            ihex::Record::StartSegmentAddress { .. } | ihex::Record::StartLinearAddress(_) => {}
        }
        i += 1;
    }
    if !eof {
        return V_NO_EOF;
    }
    let want: u64 = if len >= 64 { u64::MAX } else { (1u64 << len) - 1 };
    if covered != want {
        return V_MISSING;
    }
    V_OK
}

/// Record-level reader for large images whose contents are all zero: data records must tile
/// 0..len in increasing address order (no bitmap is possible at this size; an implementation
/// that emits records out of order would be reported by this harness — stated in DESIGN.md).
/// Large-image reader that looks at ONE symbolically chosen record instead of walking all of
/// them (walking 258 heap-allocated records took > 15 min of symbolic execution): the layout
/// expected is the writer's own - optional address record first, then one data record per 16-byte
/// chunk in increasing order, then end-of-file.  An implementation with another (equally valid)
/// record layout would be reported by this harness; stated in DESIGN.md.
fn read_one_record(records: &[ihex::Record]) -> u8 {
    let len = unsafe { IMG_LEN };
    let pick = unsafe { BIG_PICK };
    let chunks = (len + 15) / 16;
    let n = records.len();
    // leading address record(s)
    let lead = if n > 0 && matches!(records[0], ihex::Record::ExtendedSegmentAddress(0) | ihex::Record::ExtendedLinearAddress(0)) { 1 } else { 0 };
    if n != lead + chunks + 1 {
        return V_MISSING;
    }
    if !matches!(records[n - 1], ihex::Record::EndOfFile) {
        return V_NO_EOF;
    }
    if pick >= chunks {
        return V_OK;
    }
    match &records[lead + pick] {
        ihex::Record::Data { offset, value } => {
            if *offset as usize != 16 * pick {
                return V_OUT_OF_ORDER;
            }
            let want_len = if pick + 1 == chunks { len - 16 * pick } else { 16 };
            if value.len() != want_len {
                return V_OUTSIDE;
            }
            let mut j = 0;
            while j < value.len() {
                let a = 16 * pick + j;
                let want = if a + 24 >= len { unsafe { BIG_TAIL[a + 24 - len] } } else { 0 };
                if value[j] != want {
                    return V_WRONG_BYTE;
                }
                j += 1;
            }
            V_OK
        }
        _ => V_OUT_OF_ORDER,
    }
}

fn read_records_big(records: &[ihex::Record]) -> u8 {
    if unsafe { BIG_PICK } != usize::MAX {
        return read_one_record(records);
    }
    let len = unsafe { IMG_LEN } as u64;
    let mut next: u64 = 0;
    let mut base: u32 = 0;
    let mut eof = false;
    let n = records.len();
    let mut i = 0;
    while i < n {
        match &records[i] {
            ihex::Record::Data { offset, value } => {
                if eof {
                    return V_DATA_AFTER_EOF;
                }
                if value.len() > 255 {
                    return V_EMPTY_OR_LONG;
                }
                let addr = base as u64 + *offset as u64;
                if addr != next {
                    return V_OUT_OF_ORDER;
                }
                if next + value.len() as u64 > len {
                    return V_OUTSIDE;
                }
                // contents are compared for the records that overlap the symbolic tail only
                // (all other bytes are the constant 0; reading every byte of every record back
                // out of the heap-allocated records dominated symbolic execution)
                if next + value.len() as u64 + 24 > len {
                    let mut j = 0;
                    while j < value.len() {
                        let a = next + j as u64;
                        let want = if a + 24 >= len { unsafe { BIG_TAIL[(a + 24 - len) as usize] } } else { 0 };
                        if value[j] != want {
                            return V_WRONG_BYTE;
                        }
                        j += 1;
                    }
                }
                next += value.len() as u64;
            }
            ihex::Record::EndOfFile => {
                if eof || i != n - 1 {
                    return V_EOF_NOT_LAST;
                }
                eof = true;
            }
            ihex::Record::ExtendedSegmentAddress(seg) => base = (*seg as u32) << 4,
            ihex::Record::ExtendedLinearAddress(hi) => base = (*hi as u32) << 16,
            ihex::Record::StartSegmentAddress { .. } | ihex::Record::StartLinearAddress(_) => {}
        }
        i += 1;
    }
    if !eof {
        return V_NO_EOF;
    }
    if next != len {
        return V_MISSING;
    }
    V_OK
}

/// Stub for `ihex::create_object_file_representation` (Kani only).
pub fn capture_stub(records: &[ihex::Record]) -> Result<String, ihex::WriterError> {
    unsafe {
        VERDICT = if BIG { read_records_big(records) } else { read_records(records) };
    }
    Ok(String::new())
}

// ---------------------------------------------------------------------------------------
// independent text-level Intel HEX reader (native replay)

#[cfg(not(kani))]
pub fn read_hex_text(text: &str, image: &[u8]) -> Result<(), String> {
    let mut covered = vec![false; image.len()];
    let mut base: u64 = 0;
    let mut eof = false;
    for (ln, line) in text.split('\n').enumerate() {
        let line = line.trim_end_matches('\r');
        if line.is_empty() {
            continue;
        }
        if eof {
            return Err(format!("line {}: record after end-of-file", ln + 1));
        }
        let b = line.as_bytes();
        if b[0] != b':' || (b.len() - 1) % 2 != 0 {
            return Err(format!("line {}: not a record: {:?}", ln + 1, line));
        }
        let mut raw = vec![];
        let mut i = 1;
        while i + 1 < b.len() {
            let h = std::str::from_utf8(&b[i..i + 2]).unwrap();
            if !h.bytes().all(|c| c.is_ascii_digit() || (b'A'..=b'F').contains(&c)) {
                return Err(format!("line {}: bad hex digits {:?}", ln + 1, h));
            }
            raw.push(u8::from_str_radix(h, 16).unwrap());
            i += 2;
        }
        if raw.len() < 5 || raw.len() != raw[0] as usize + 5 {
            return Err(format!("line {}: length field does not match", ln + 1));
        }
        let sum: u32 = raw.iter().map(|x| *x as u32).sum();
        if sum & 0xff != 0 {
            return Err(format!("line {}: bad checksum", ln + 1));
        }
        let off = ((raw[1] as u64) << 8) | raw[2] as u64;
        let data = &raw[4..raw.len() - 1];
        match raw[3] {
            0 => {
                for (j, v) in data.iter().enumerate() {
                    let addr = base + off + j as u64;
                    if addr as usize >= image.len() {
                        return Err(format!("line {}: byte at {:#x} outside the image", ln + 1, addr));
                    }
                    if covered[addr as usize] {
                        return Err(format!("line {}: address {:#x} written twice", ln + 1, addr));
                    }
                    if image[addr as usize] != *v {
                        return Err(format!("line {}: wrong byte at {:#x}", ln + 1, addr));
                    }
                    covered[addr as usize] = true;
                }
            }
            1 => {
                if !data.is_empty() {
                    return Err("EOF record with data".into());
                }
                eof = true;
            }
            2 => base = ((((data[0] as u64) << 8) | data[1] as u64) << 4),
            4 => base = ((((data[0] as u64) << 8) | data[1] as u64) << 16),
            3 | 5 => {}
            t => return Err(format!("line {}: unknown record type {}", ln + 1, t)),
        }
    }
    if !eof {
        return Err("no end-of-file record".into());
    }
    if let Some(p) = covered.iter().position(|c| !*c) {
        return Err(format!("image byte at {:#x} is not in the file", p));
    }
    Ok(())
}

/// Image of symbolic length 0..=maxlen (<= 64) with symbolic contents.
pub fn hex_small<S: Src>(s: &mut S, lo: usize, hi: usize) {
    // every length in lo..hi (hi - lo <= 20) is explored on its own path with a concrete
    // length (record pushes and chunk copies of symbolic size did not finish); the image
    // contents stay symbolic
    let len = s.u8();
    s.assume(len as usize >= lo && (len as usize) < hi);
    crate::split!(len, lo as u8, hi as u8, |l| hex_len(s, l as usize));
}

fn hex_len<S: Src>(s: &mut S, len: usize) {
    s.role(H_C07_HEX, 0);
    let maxlen = MAXLEN;
    let img: [u8; MAXLEN] = s.arr64();
    unsafe {
        IMG = img;
        IMG_LEN = len;
        VERDICT = 0;
        BIG = false;
    }
    let r = avra_lib::writer::verif_generate_hex_from_segment(&img[..len]);
    let _ = maxlen;
    cov!(r.is_ok(), "!writer returned a file");
    chk!(s, r.is_ok(), "C07: writer failed on an image it must be able to write");
    #[cfg(kani)]
    {
        let v = unsafe { VERDICT };
        assert!(v != 0, "C07: HEX library never called");
        assert!(v == V_OK, "C07: records do not reproduce the image byte for byte");
    }
    #[cfg(not(kani))]
    {
        s.note("len", len as i64);
        if let Ok(text) = &r {
            let verdict = read_hex_text(text, &img[..len]);
            s.note_s("text_reader", &format!("{:?}", verdict));
            chk!(s, verdict.is_ok(), "C07: HEX text does not reproduce the image byte for byte");
        }
    }
    core::mem::forget(r);
}

/// Large image of one *concrete* length `len` (so that the record loop has a concrete trip
/// count and every record index 0..len/16 is executed): zero everywhere except the last 24
/// bytes, which are symbolic.  Decides the offset arithmetic of every record index up to
/// len/16 (e.g. 257 for the 4 KiB window, 4098 for the 64 KiB window) and that the bytes of the
/// last records are the image's.
pub fn hex_big<S: Src>(s: &mut S, len: usize) {
    s.role(H_C07_HEX, 1);
    let tail: [u8; 64] = s.arr64();
    let mut img: Vec<u8> = vec![0u8; len];
    let mut i = 0;
    while i < 24 {
        img[len - 24 + i] = tail[i];
        i += 1;
    }
    let pick = s.u16() as usize;
    s.assume(pick < (len + 15) / 16);
    unsafe {
        IMG_LEN = len;
        VERDICT = 0;
        BIG = true;
        BIG_TAIL = tail;
        BIG_PICK = pick;
    }
    let r = avra_lib::writer::verif_generate_hex_from_segment(&img[..]);
    cov!(r.is_ok(), "!writer returned a file");
    chk!(s, r.is_ok(), "C07: writer failed on an image it must be able to write");
    #[cfg(kani)]
    {
        let v = unsafe { VERDICT };
        assert!(v != 0, "C07: HEX library never called");
        assert!(v == V_OK, "C07: records do not tile the image at the right addresses");
    }
    #[cfg(not(kani))]
    {
        s.note("len", len as i64);
        if let Ok(text) = &r {
            let verdict = read_hex_text(text, &img[..]);
            s.note_s("text_reader", &format!("{:?}", verdict));
            chk!(s, verdict.is_ok(), "C07: HEX text does not reproduce the image byte for byte");
        }
    }
    core::mem::forget(r);
    core::mem::forget(img);
}
