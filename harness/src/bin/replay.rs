//! Native replay: runs a harness body on concrete inputs against the natively compiled
//! `avra_lib` (the crate under test, not a model).
//!
//!   replay <harness> <hex> <hex> ...      one little-endian hex string per drawn value
//!   replay --list
//!
//! exit 0  all checks held on this input (counterexample NOT reproduced)
//! exit 10 a property check failed        (reproduced)
//! exit 11 the code under test panicked   (reproduced, C16-style)
//! exit 12 an assumption did not hold     (input vector does not match the harness)
//! exit 2  usage / unknown harness
use avra_proofs::src::ReplaySrc;

fn unhex(s: &str) -> Vec<u8> {
    let s = s.trim();
    let mut out = vec![];
    let b = s.as_bytes();
    let mut i = 0;
    while i + 1 < b.len() {
        out.push(u8::from_str_radix(&s[i..i + 2], 16).unwrap_or(0));
        i += 2;
    }
    out
}

fn main() {
    let args: Vec<String> = std::env::args().collect();
    if args.len() >= 2 && args[1] == "--list" {
        for n in avra_proofs::HARNESS_NAMES {
            println!("{}", n);
        }
        return;
    }
    if args.len() >= 2 && args[1] == "--selftest" {
        std::process::exit(avra_proofs::selftest::run());
    }
    if args.len() >= 5 && args[1] == "--search" {
        // witness search (fallback when Kani prints no concrete vector for a failed harness):
        // the solver has already decided that a violating input exists; this only looks for one
        // to replay.  Biased pseudo-random vectors, in-process.
        let name = args[2].clone();
        let count: u64 = args[3].parse().unwrap_or(1000);
        let mut x: u64 = args[4].parse::<u64>().unwrap_or(1).wrapping_mul(0x9E3779B97F4A7C15) | 1;
        let mut next = move || {
            x ^= x << 13;
            x ^= x >> 7;
            x ^= x << 17;
            x
        };
        std::panic::set_hook(Box::new(|_| {}));
        for _ in 0..count {
            let mut vals: Vec<Vec<u8>> = vec![];
            for _ in 0..16 {
                let r = next();
                let mut v = vec![0u8; 64];
                match r % 10 {
                    0..=5 => v[0] = ((r >> 8) % 32) as u8,
                    6 => {
                        let neg = (-(((r >> 8) % 5) as i64 + 1)) as u64;
                        v[..8].copy_from_slice(&neg.to_le_bytes());
                    }
                    7 => {
                        let edge = [i64::MIN, i64::MAX, i64::MIN + 1, 255, 256, 65535, 65536, 0x3f_ffff][((r >> 8) % 8) as usize];
                        v[..8].copy_from_slice(&edge.to_le_bytes());
                    }
                    _ => {
                        for b in v.iter_mut() {
                            *b = (next() >> 24) as u8;
                        }
                    }
                }
                vals.push(v);
            }
            let trial = vals.clone();
            let nm = name.clone();
            avra_proofs::src::ASSUME_FAILED.store(false, std::sync::atomic::Ordering::SeqCst);
            let result = std::panic::catch_unwind(move || {
                let mut src = ReplaySrc::new(trial);
                src.quiet = true;
                let known = avra_proofs::run_native(&nm, &mut src);
                (known, src.failed.len(), src.assume_failed, src.pos)
            });
            let (hit, used) = match result {
                Err(_) => (!avra_proofs::src::ASSUME_FAILED.load(std::sync::atomic::Ordering::SeqCst), 16),
                Ok((false, _, _, _)) => {
                    println!("RESULT: UNKNOWN-HARNESS");
                    std::process::exit(2);
                }
                Ok((true, n, assume_failed, used)) => (n > 0 && !assume_failed, used),
            };
            if hit {
                let used = used.min(16).max(1);
                let hex: Vec<String> = vals[..used]
                    .iter()
                    .map(|v| {
                        // trailing zero bytes are implied
                        let mut end = v.len();
                        while end > 8 && v[end - 1] == 0 {
                            end -= 1;
                        }
                        v[..end].iter().map(|b| format!("{:02x}", b)).collect::<String>()
                    })
                    .collect();
                println!("FOUND: {}", hex.join(" "));
                std::process::exit(10);
            }
        }
        println!("RESULT: NOTHING-FOUND");
        std::process::exit(0);
    }
    if args.len() < 2 {
        eprintln!("usage: replay <harness> <hex>...");
        std::process::exit(2);
    }
    let name = args[1].clone();
    let vals: Vec<Vec<u8>> = args[2..].iter().map(|s| unhex(s)).collect();
    println!("REPLAY: harness={} values={}", name, vals.len());
    let result = std::panic::catch_unwind(move || {
        let mut src = ReplaySrc::new(vals);
        let known = avra_proofs::run_native(&name, &mut src);
        (known, src.failed.len(), src.assume_failed, src.pos)
    });
    match result {
        Err(_) => {
            if avra_proofs::src::ASSUME_FAILED.load(std::sync::atomic::Ordering::SeqCst) {
                println!("RESULT: ASSUMPTION-FAILED (then panicked)");
                std::process::exit(12);
            }
            println!("RESULT: PANIC");
            std::process::exit(11);
        }
        Ok((false, _, _, _)) => {
            println!("RESULT: UNKNOWN-HARNESS");
            std::process::exit(2);
        }
        Ok((true, _, true, _)) => {
            println!("RESULT: ASSUMPTION-FAILED");
            std::process::exit(12);
        }
        Ok((true, 0, false, used)) => {
            println!("RESULT: HELD (consumed {} values)", used);
            std::process::exit(0);
        }
        Ok((true, n, false, _)) => {
            println!("RESULT: CHECK-FAILED ({} checks)", n);
            std::process::exit(10);
        }
    }
}
