//! Native replay: runs a harness body on concrete inputs against the natively compiled
//! `avra_lib` (the crate under test, not a model).
//!
//!   replay <harness> <hex> <hex> ...      one little-endian hex string per drawn value
//!   replay --list
//!
//! exit 0  all checks held on this input (counterexample NOT reproduced)
//! exit 10 a property check failed        (reproduced)
//! exit 11 the code under test panicked   (reproduced, C16-style)
//! exit 12 an assumption did not hold     (input vector does not match the harness)
//! exit 2  usage / unknown harness
use avra_proofs::src::ReplaySrc;

fn unhex(s: &str) -> Vec<u8> {
    let s = s.trim();
    let mut out = vec![];
    let b = s.as_bytes();
    let mut i = 0;
    while i + 1 < b.len() {
        out.push(u8::from_str_radix(&s[i..i + 2], 16).unwrap_or(0));
        i += 2;
    }
    out
}

fn main() {
    let args: Vec<String> = std::env::args().collect();
    if args.len() >= 2 && args[1] == "--list" {
        for n in avra_proofs::HARNESS_NAMES {
            println!("{}", n);
        }
        return;
    }
    if args.len() >= 2 && args[1] == "--selftest" {
        std::process::exit(avra_proofs::selftest::run());
    }
    if args.len() < 2 {
        eprintln!("usage: replay <harness> <hex>...");
        std::process::exit(2);
    }
    let name = args[1].clone();
    let vals: Vec<Vec<u8>> = args[2..].iter().map(|s| unhex(s)).collect();
    println!("REPLAY: harness={} values={}", name, vals.len());
    let result = std::panic::catch_unwind(move || {
        let mut src = ReplaySrc::new(vals);
        let known = avra_proofs::run_native(&name, &mut src);
        (known, src.failed.len(), src.assume_failed, src.pos)
    });
    match result {
        Err(_) => {
            println!("RESULT: PANIC");
            std::process::exit(11);
        }
        Ok((false, _, _, _)) => {
            println!("RESULT: UNKNOWN-HARNESS");
            std::process::exit(2);
        }
        Ok((true, _, true, _)) => {
            println!("RESULT: ASSUMPTION-FAILED");
            std::process::exit(12);
        }
        Ok((true, 0, false, used)) => {
            println!("RESULT: HELD (consumed {} values)", used);
            std::process::exit(0);
        }
        Ok((true, n, false, _)) => {
            println!("RESULT: CHECK-FAILED ({} checks)", n);
            std::process::exit(10);
        }
    }
}
