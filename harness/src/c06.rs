//! C06 (conversion layer) and the L2 lemma of C02: `Operand::{len,get_*}`, `GetData for
//! Vec<Operand>`, `Expr::{get_byte,get_words,get_double_words,get_quad_words}`.
use crate::ctx::{Ctx, Tab};
use crate::roles::*;
use crate::src::Src;
use crate::{chk, cov};
use avra_lib::directive::{GetData, Operand};
use avra_lib::expr::Expr;
use core::mem::ManuallyDrop;

/// What the programmer wrote for one operand.
#[derive(Clone, Copy)]
pub enum D {
    /// constant expression with this value
    K(i64),
    /// the symbol `s` (bound to the value, or unbound)
    Sym(i64, bool),
    /// string of `len` bytes
    Str([u8; 3], usize),
}

/// operand kinds (concrete per path): 0 constant, 1 bound symbol, 2 unbound symbol,
/// 3 empty string, 4 one ASCII byte, 5 two ASCII bytes, 6 one two-byte UTF-8 character
pub const N_KINDS: u8 = 7;

fn draw_operand<S: Src>(s: &mut S, kind: u8, sym: i64) -> D {
    match kind {
        0 => D::K(s.i64()),
        1 => D::Sym(sym, true),
        2 => D::Sym(sym, false),
        3 => D::Str([0, 0, 0], 0),
        4 => {
            let b = s.u8();
            s.assume(b < 0x80);
            D::Str([b, 0, 0], 1)
        }
        5 => {
            let b0 = s.u8();
            let b1 = s.u8();
            s.assume(b0 < 0x80 && b1 < 0x80);
            D::Str([b0, b1, 0], 2)
        }
        _ => {
            let b0 = s.u8();
            let b1 = s.u8();
            s.assume(b0 >= 0xc2 && b0 <= 0xdf && b1 >= 0x80 && b1 <= 0xbf);
            D::Str([b0, b1, 0], 2)
        }
    }
}

fn to_operand(d: &D) -> Operand {
    match d {
        D::K(v) => Operand::E(Expr::Const(*v)),
        D::Sym(_, _) => Operand::E(Expr::Ident(String::from("s"))),
        D::Str(b, len) => {
            let mut v: Vec<u8> = Vec::with_capacity(3);
            if *len > 0 {
                v.push(b[0]);
            }
            if *len > 1 {
                v.push(b[1]);
            }
            if *len > 2 {
                v.push(b[2]);
            }
            Operand::S(unsafe { String::from_utf8_unchecked(v) })
        }
    }
}

/// Reference: bytes one operand contributes for element width `w`, None = build must fail.
fn ref_bytes(d: &D, w: usize, out: &mut [u8; 32], n: &mut usize) -> bool {
    let v = match d {
        D::K(v) => *v,
        D::Sym(v, true) => *v,
        D::Sym(_, false) => return false,
        D::Str(b, len) => {
            if w != 1 {
                return false;
            }
            let mut i = 0;
            while i < *len {
                out[*n] = b[i];
                *n += 1;
                i += 1;
            }
            return true;
        }
    };
    let fits = match w {
        1 => v >= -128 && v <= 255,
        2 => v >= -32768 && v <= 65535,
        4 => v >= i32::MIN as i64 && v <= u32::MAX as i64,
        _ => true,
    };
    if !fits {
        return false;
    }
    let mut i = 0;
    while i < w {
        out[*n] = ((v as u64) >> (8 * i)) as u8;
        *n += 1;
        i += 1;
    }
    true
}

#[cfg(not(kani))]
fn d_text(d: &D) -> String {
    match d {
        D::K(v) => format!("{}", v),
        D::Sym(v, b) => format!("s[={} bound={}]", v, b),
        D::Str(b, len) => format!("{:?}", String::from_utf8_lossy(&b[..*len])),
    }
}

/// `.db/.dw/.dd/.dq` conversion of a list of 0..=2 operands, element width `w` bytes.
/// The kind of the first operand is concrete per harness, the kind of the second and the list
/// length are chosen symbolically but split into concrete paths (string lengths stay concrete:
/// `Vec::extend` with a symbolic length blew CBMC's memory).
pub fn data_w<S: Src>(s: &mut S, w: usize, kind0: u8) {
    let k1 = s.below(N_KINDS);
    crate::split!(k1, 0, N_KINDS, |kind1| data_w_n(s, w, kind0, kind1));
}

fn data_w_n<S: Src>(s: &mut S, w: usize, kind0: u8, kind1: u8) {
    let n = s.below(3);
    crate::split!(n, 0, 3, |nn| data_w_shape(s, w, kind0, kind1, nn as usize));
}

fn data_w_shape<S: Src>(s: &mut S, w: usize, kind0: u8, kind1: u8, n: usize) {
    s.role(H_C06_DATA, w as u32);
    let sym = s.i64();
    let d = [draw_operand(s, kind0, sym), draw_operand(s, kind1, sym), D::K(0)];
    // both symbol operands refer to the same symbol `s`: one bound and one unbound is impossible
    let bound = |d: &D| match d {
        D::Sym(_, b) => Some(*b),
        _ => None,
    };
    s.assume(!(bound(&d[0]).is_some() && bound(&d[1]).is_some() && bound(&d[0]) != bound(&d[1])));
    let sym_bound = bound(&d[0]) == Some(true) || bound(&d[1]) == Some(true);
    let ctx = if sym_bound { Ctx::with(false, Tab::Equ, sym, None) } else { Ctx::plain() };
    let mut arr = ManuallyDrop::new([to_operand(&d[0]), to_operand(&d[1]), to_operand(&d[2])]);
    let list = ManuallyDrop::new(unsafe { Vec::from_raw_parts(arr.as_mut_ptr(), n, 3) });
    let got = match w {
        1 => list.get_bytes(&ctx),
        2 => list.get_words(&ctx),
        4 => list.get_double_words(&ctx),
        _ => list.get_quad_words(&ctx),
    };
    let accounted = list.actual_len();
    // reference
    let mut exp = [0u8; 32];
    let mut en = 0usize;
    let mut exp_ok = true;
    let mut i = 0;
    while i < n {
        if exp_ok && !ref_bytes(&d[i], w, &mut exp, &mut en) {
            exp_ok = false;
        }
        i += 1;
    }
    cov!(got.is_ok() || got.is_err(), "!conversion returned");
    cov!(got.is_ok() && n == 2, "two operands converted");
    cov!(got.is_err(), "an operand is rejected");
    #[cfg(not(kani))]
    {
        s.note("width", w as i64);
        s.note_s("operands", &format!("{:?}", d[..n].iter().map(d_text).collect::<Vec<_>>()));
        match &got {
            Ok(b) => s.note_s("got", &format!("Ok({:02x?})", b)),
            Err(e) => s.note_s("got", &format!("Err({})", e)),
        }
        s.note_s("reference", &if exp_ok { format!("Ok({:02x?})", &exp[..en]) } else { "Err".to_string() });
    }
    chk!(s, got.is_ok() == exp_ok, "C06: data list accepted/rejected against the width's documented range");
    if let Ok(b) = &got {
        let mut same = b.len() == en;
        let mut i = 0;
        while i < 16 {
            if same && i < en && b[i] != exp[i] {
                same = false;
            }
            i += 1;
        }
        chk!(s, same, "C06: emitted bytes differ from the little-endian reference");
        if w == 1 {
            chk!(s, accounted == b.len(), "C02-L2: .db accounted length differs from the emitted length");
        } else {
            chk!(s, b.len() == n * w, "C02-L2: emitted length differs from count * element width");
        }
    }
    core::mem::forget(got);
}
