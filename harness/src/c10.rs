//! C10 (table layer): the real `CommonContext` (list-based container shim) — case-insensitive
//! lookup per table, lookup order, unbound => error; alias == register in `process`.
use crate::ops::*;
use crate::refisa::*;
use crate::roles::*;
use crate::src::Src;
use crate::{chk, cov};
use avra_lib::context::{CommonContext, Context};
use avra_lib::expr::Expr;
use avra_lib::instruction::process;
use avra_lib::parser::SegmentType;

/// name of 1..=3 ASCII letters, letter i upper-cased when bit i of `mask` is set
fn name_with_case(letters: &[u8; 3], len: usize, mask: u8) -> String {
    let mut v: Vec<u8> = Vec::with_capacity(3);
    let mut i = 0;
    while i < len {
        let c = letters[i];
        v.push(if (mask >> i) & 1 == 1 { c - 32 } else { c });
        i += 1;
    }
    unsafe { String::from_utf8_unchecked(v) }
}

/// One definition made the way the pipeline makes it, looked up in another letter case.
/// table: 0 label (the grammar hands labels over lower-cased), 1 equ (as written),
/// 2 def (pass 2 lower-cases the alias before `set_def`), 3 special (`pc`, lower-case).
/// Names have `len` letters (concrete per harness), each letter and each case bit symbolic.
pub fn bind_tables<S: Src>(s: &mut S, table: u8, len: usize) {
    s.role(H_C10_TAB, table as u32);
    let letters = [b'a' + s.below(26), b'a' + s.below(26), b'a' + s.below(26)];
    let def_mask = s.below(8);
    let use_mask = s.below(8);
    let v = s.i64();
    let r = s.below(32);
    let ctx = CommonContext::new();
    let lower = name_with_case(&letters, len, 0);
    let as_written = name_with_case(&letters, len, def_mask);
    let looked_up = name_with_case(&letters, len, use_mask);
    match table {
        0 => {
            s.assume(v >= 0 && v <= u32::MAX as i64);
            let prev = ctx.set_label(lower, (SegmentType::Code, v as u32));
            chk!(s, prev.is_none(), "C10: fresh label reported as duplicate");
        }
        1 => {
            let _ = ctx.set_equ(as_written, Expr::Const(v));
        }
        2 => {
            let prev = ctx.set_def(lower, crate::ctx::reg(r));
            chk!(s, prev.is_none(), "C10: fresh alias reported as duplicate");
        }
        _ => {
            let _ = ctx.set_special(lower, Expr::Const(v));
        }
    }
    cov!(def_mask != use_mask, "!definition and use differ in letter case");
    if table == 2 {
        let got = ctx.get_def(&looked_up);
        chk!(s, got == Some(crate::ctx::reg(r)), "C10: register alias not found regardless of letter case");
        let none = ctx.get_expr(&looked_up);
        chk!(s, none.is_none(), "C10: a register alias resolved as a number");
        core::mem::forget(none);
    } else {
        let got = ctx.get_expr(&looked_up);
        let ok = match &got {
            Some(Expr::Const(x)) => *x == v,
            _ => false,
        };
        chk!(s, ok, "C10: symbol not resolved to its definition regardless of letter case");
        core::mem::forget(got);
    }
    // a different name is not found
    let mut other = letters;
    other[0] = if letters[0] == b'z' { b'a' } else { letters[0] + 1 };
    let other_name = name_with_case(&other, len, use_mask);
    chk!(s, !ctx.exist(&other_name), "C10: an undefined name is reported as existing");
    core::mem::forget(ctx);
}

/// Two tables bind the same name: documented priority define > equ > set > special > label,
/// checked on the real `CommonContext` (definitions inserted in lower case).
pub fn bind_order<S: Src>(s: &mut S) {
    // (hi, lo) = one of the six ordered pairs of tables 0 equ, 1 set, 2 special, 3 label
    let pair = s.below(6);
    crate::split!(pair, 0, 6, |p| {
        let (hi, lo) = match p {
            0 => (0, 1),
            1 => (0, 2),
            2 => (0, 3),
            3 => (1, 2),
            4 => (1, 3),
            _ => (2, 3),
        };
        bind_order_pair(s, hi, lo)
    });
}

fn bind_order_pair<S: Src>(s: &mut S, hi: u8, lo: u8) {
    s.role(H_C10_TAB, 10 + hi as u32);
    let v_hi = s.i64();
    let v_lo = s.i64();
    let ctx = CommonContext::new();
    let put = |t: u8, v: i64| match t {
        0 => {
            let _ = ctx.set_equ(String::from("n"), Expr::Const(v));
        }
        1 => {
            let _ = ctx.sets.borrow_mut().insert(String::from("n"), Expr::Const(v));
        }
        2 => {
            let _ = ctx.set_special(String::from("n"), Expr::Const(v));
        }
        _ => {
            let _ = ctx.set_label(String::from("n"), (SegmentType::Code, v as u32));
        }
    };
    if lo == 3 {
        s.assume(v_lo >= 0 && v_lo <= u32::MAX as i64);
    }
    put(lo, v_lo);
    put(hi, v_hi);
    let val = ctx.get_expr(&String::from("n"));
    let ok = match &val {
        Some(Expr::Const(x)) => *x == if hi == 3 { v_hi as u32 as i64 } else { v_hi },
        _ => false,
    };
    cov!(ok, "!higher-priority table wins");
    chk!(s, ok, "C10: lookup order between symbol tables differs from the documented one");
    core::mem::forget(val);
    core::mem::forget(ctx);
}

/// An instruction using a `.def` alias is identical to one using the register.
/// class: 0 = two-register ops, 3 = one-register ops, 2 = register-immediate
pub fn bind_alias<S: Src>(s: &mut S, lo: u8, hi: u8, class: u8) {
    let sel = lo + s.below(hi - lo);
    crate::split!(sel, lo, hi, |oi| bind_alias_op(s, oi, class));
}

fn bind_alias_op<S: Src>(s: &mut S, oi: u8, class: u8) {
    use avra_lib::instruction::InstructionOps;
    s.role(H_C10_ALIAS, oi as u32);
    let op = op_at(oi);
    let r = s.below(32);
    let other = s.below(32);
    let k = s.u8();
    let use_mask = s.below(2);
    let ctx = CommonContext::new();
    let _ = ctx.set_def(String::from("a"), crate::ctx::reg(r));
    let alias = InstructionOps::E(Expr::Ident(String::from(if use_mask == 1 { "A" } else { "a" })));
    let plain = InstructionOps::R8(crate::ctx::reg(r));
    let second = |c: u8| -> InstructionOps {
        match c {
            0 => InstructionOps::R8(crate::ctx::reg(other)),
            2 => InstructionOps::E(Expr::Const(k as i64)),
            _ => filler(),
        }
    };
    let n = if class == 3 { 1 } else { 2 };
    let mut with_alias = ArgVec::new([alias, second(class), filler()], n);
    let mut with_reg = ArgVec::new([plain, second(class), filler()], n);
    let a = with_alias.with(|v| process(&op, v, 0, &ctx));
    let b = with_reg.with(|v| process(&op, v, 0, &ctx));
    let same = match (&a, &b) {
        (Ok(x), Ok(y)) => x.len() == y.len() && x.len() >= 2 && x[0] == y[0] && x[1] == y[1],
        (Err(_), Err(_)) => true,
        _ => false,
    };
    cov!(a.is_ok(), "!alias operand assembled");
    #[cfg(not(kani))]
    {
        s.note_s("op", &op_text(oi));
        s.note("reg", r as i64);
        s.note_s("with_alias", &format!("{:?}", a.as_ref().map_err(|e| e.to_string())));
        s.note_s("with_reg", &format!("{:?}", b.as_ref().map_err(|e| e.to_string())));
    }
    chk!(s, same, "C10: instruction with a register alias differs from the one with the register");
    core::mem::forget(a);
    core::mem::forget(b);
    core::mem::forget(ctx);
}
