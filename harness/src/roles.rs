//! Harness ids and human-readable role names (keys of known_findings.json).
pub const H_C01_ENC: u32 = 1;
pub const H_C03_REL: u32 = 3;
pub const H_C04_REJ: u32 = 4;
pub const H_C05_BIN: u32 = 50;
pub const H_C05_UN: u32 = 51;
pub const H_C05_FUNC: u32 = 52;
pub const H_C05_NEST: u32 = 53;
pub const H_C05_IDENT: u32 = 54;
pub const H_C06_DATA: u32 = 6;
pub const H_C07_HEX: u32 = 7;
pub const H_C08_COND: u32 = 8;
pub const H_C10_TAB: u32 = 10;
pub const H_C10_ALIAS: u32 = 11;
pub const H_C10_PASS: u32 = 12;
pub const H_C12_CAP: u32 = 12_0;
pub const H_C13_GATE: u32 = 13;
pub const H_C13_ENC: u32 = 13_1;
pub const H_C16_DIR: u32 = 16;
pub const H_C16_EQU: u32 = 16_1;
pub const H_C02_STEP: u32 = 2;

pub fn op_role(i: u32) -> String {
    format!("op={}", crate::ops::op_text(i as u8))
}

pub fn role_name(h: u32, r: u32) -> String {
    match h {
        H_C01_ENC | H_C03_REL | H_C04_REJ | H_C13_GATE | H_C13_ENC | H_C10_ALIAS => op_role(r),
        H_C05_BIN => format!("binop={}", crate::c05::BIN_NAMES.get(r as usize).copied().unwrap_or("?")),
        H_C05_UN => format!("unop={}", crate::c05::UN_NAMES.get(r as usize).copied().unwrap_or("?")),
        H_C05_FUNC => format!("func={}", crate::c05::FUNC_NAMES.get(r as usize).copied().unwrap_or("?")),
        _ => format!("case={}", r),
    }
}
