//! Kani stubs placed around the real code. Every one of them is part of every claim
//! (listed in DESIGN.md §2.3 and echoed into the evidence files).

/// `alloc::fmt::format` -> empty string. Error *text* becomes unobservable (reason C15 is
/// not claimed); Ok/Err outcomes are unaffected.
pub fn format_stub(_args: core::fmt::Arguments<'_>) -> String {
    String::new()
}

/// `std::env::var_os` -> None: `failure::Error` construction reads RUST_BACKTRACE through
/// getenv (FFI). Equals running with the variable unset.
pub fn var_os_stub<K: AsRef<std::ffi::OsStr>>(_k: K) -> Option<std::ffi::OsString> {
    None
}

/// `core::str::slice_error_fail` -> plain panic (the real one re-slices and formats).
pub fn slice_error_fail_stub(_s: &str, _begin: usize, _end: usize) -> ! {
    panic!("str slice error")
}

/// `str::to_lowercase` -> ASCII lower-casing that *asserts* the input is ASCII.
/// Every string that reaches `to_lowercase` in the encoded units is an identifier and the
/// grammar only produces ASCII identifiers; a non-ASCII string trips the assertion.
pub fn to_lowercase_stub(s: &str) -> String {
    let b = s.as_bytes();
    let mut out: Vec<u8> = Vec::with_capacity(b.len());
    let mut i = 0;
    while i < b.len() {
        let c = b[i];
        assert!(c < 0x80, "to_lowercase stub reached with a non-ASCII string");
        out.push(if c >= b'A' && c <= b'Z' { c + 32 } else { c });
        i += 1;
    }
    unsafe { String::from_utf8_unchecked(out) }
}

/// `Expr::run` restricted to leaves (used by the instruction-level harnesses only; the real
/// `Expr::run` is the subject of the C05 harnesses).  Any non-leaf expression trips the assertion.
pub fn run_leaf(
    e: &avra_lib::expr::Expr,
    constants: &dyn avra_lib::context::Context,
) -> Result<i64, avra_lib::expr::ExprRunError> {
    use avra_lib::expr::{Expr, ExprRunError};
    match e {
        Expr::Const(v) => Ok(*v),
        Expr::Ident(ident) => match constants.get_expr(ident) {
            Some(Expr::Const(v)) => Ok(v),
            Some(_) => {
                assert!(false, "run_leaf stub: symbol bound to a non-constant");
                Err(ExprRunError::MissingIdentifier(String::new()))
            }
            None => Err(ExprRunError::MissingIdentifier(String::new())),
        },
        _ => {
            assert!(false, "run_leaf stub reached with a non-leaf expression");
            Err(ExprRunError::MissingIdentifier(String::new()))
        }
    }
}

/// `<Expr as Clone>::clone` restricted to leaves (instruction-level harnesses only).
pub fn clone_leaf(e: &avra_lib::expr::Expr) -> avra_lib::expr::Expr {
    use avra_lib::expr::Expr;
    match e {
        Expr::Const(v) => Expr::Const(*v),
        Expr::Ident(s) => Expr::Ident(s.clone()),
        _ => {
            assert!(false, "clone_leaf stub reached with a non-leaf expression");
            Expr::Const(0)
        }
    }
}
