
/**
Convenient type operations.

Any types representing values must be able to be expressed as `ident`s. That means they need to be
in scope.

For example, `P5` is okay, but `typenum::P5` is not.

You may combine operators arbitrarily, although doing so excessively may require raising the
recursion limit.

# Example
```rust
#![recursion_limit="128"]
#[macro_use] extern crate typenum;
use typenum::consts::*;

fn main() {
    assert_type!(
        op!(min((P1 - P2) * (N3 + N7), P5 * (P3 + P4)) == P10)
    );
}
```
Operators are evaluated based on the operator precedence outlined
[here](https://doc.rust-lang.org/reference.html#operator-precedence).

The full list of supported operators and functions is as follows:

`*`, `/`, `%`, `+`, `-`, `<<`, `>>`, `&`, `^`, `|`, `==`, `!=`, `<=`, `>=`, `<`, `>`, `cmp`, `sqr`, `sqrt`, `abs`, `cube`, `pow`, `min`, `max`, `log2`, `gcd`

They all expand to type aliases defined in the `operator_aliases` module. Here is an expanded list,
including examples:

---
Operator `*`. Expands to `Prod`.

```rust
# #[macro_use] extern crate typenum;
# use typenum::*;
# fn main() {
assert_type_eq!(op!(P2 * P3), P6);
# }
```

---
Operator `/`. Expands to `Quot`.

```rust
# #[macro_use] extern crate typenum;
# use typenum::*;
# fn main() {
assert_type_eq!(op!(P6 / P2), P3);
# }
```

---
Operator `%`. Expands to `Mod`.

```rust
# #[macro_use] extern crate typenum;
# use typenum::*;
# fn main() {
assert_type_eq!(op!(P5 % P3), P2);
# }
```

---
Operator `+`. Expands to `Sum`.

```rust
# #[macro_use] extern crate typenum;
# use typenum::*;
# fn main() {
assert_type_eq!(op!(P2 + P3), P5);
# }
```

---
Operator `-`. Expands to `Diff`.

```rust
# #[macro_use] extern crate typenum;
# use typenum::*;
# fn main() {
assert_type_eq!(op!(P2 - P3), N1);
# }
```

---
Operator `<<`. Expands to `Shleft`.

```rust
# #[macro_use] extern crate typenum;
# use typenum::*;
# fn main() {
assert_type_eq!(op!(U1 << U5), U32);
# }
```

---
Operator `>>`. Expands to `Shright`.

```rust
# #[macro_use] extern crate typenum;
# use typenum::*;
# fn main() {
assert_type_eq!(op!(U32 >> U5), U1);
# }
```

---
Operator `&`. Expands to `And`.

```rust
# #[macro_use] extern crate typenum;
# use typenum::*;
# fn main() {
assert_type_eq!(op!(U5 & U3), U1);
# }
```

---
Operator `^`. Expands to `Xor`.

```rust
# #[macro_use] extern crate typenum;
# use typenum::*;
# fn main() {
assert_type_eq!(op!(U5 ^ U3), U6);
# }
```

---
Operator `|`. Expands to `Or`.

```rust
# #[macro_use] extern crate typenum;
# use typenum::*;
# fn main() {
assert_type_eq!(op!(U5 | U3), U7);
# }
```

---
Operator `==`. Expands to `Eq`.

```rust
# #[macro_use] extern crate typenum;
# use typenum::*;
# fn main() {
assert_type_eq!(op!(P5 == P3 + P2), True);
# }
```

---
Operator `!=`. Expands to `NotEq`.

```rust
# #[macro_use] extern crate typenum;
# use typenum::*;
# fn main() {
assert_type_eq!(op!(P5 != P3 + P2), False);
# }
```

---
Operator `<=`. Expands to `LeEq`.

```rust
# #[macro_use] extern crate typenum;
# use typenum::*;
# fn main() {
assert_type_eq!(op!(P6 <= P3 + P2), False);
# }
```

---
Operator `>=`. Expands to `GrEq`.

```rust
# #[macro_use] extern crate typenum;
# use typenum::*;
# fn main() {
assert_type_eq!(op!(P6 >= P3 + P2), True);
# }
```

---
Operator `<`. Expands to `Le`.

```rust
# #[macro_use] extern crate typenum;
# use typenum::*;
# fn main() {
assert_type_eq!(op!(P4 < P3 + P2), True);
# }
```

---
Operator `>`. Expands to `Gr`.

```rust
# #[macro_use] extern crate typenum;
# use typenum::*;
# fn main() {
assert_type_eq!(op!(P5 < P3 + P2), False);
# }
```

---
Operator `cmp`. Expands to `Compare`.

```rust
# #[macro_use] extern crate typenum;
# use typenum::*;
# fn main() {
assert_type_eq!(op!(cmp(P2, P3)), Less);
# }
```

---
Operator `sqr`. Expands to `Square`.

```rust
# #[macro_use] extern crate typenum;
# use typenum::*;
# fn main() {
assert_type_eq!(op!(sqr(P2)), P4);
# }
```

---
Operator `sqrt`. Expands to `Sqrt`.

```rust
# #[macro_use] extern crate typenum;
# use typenum::*;
# fn main() {
assert_type_eq!(op!(sqrt(U9)), U3);
# }
```

---
Operator `abs`. Expands to `AbsVal`.

```rust
# #[macro_use] extern crate typenum;
# use typenum::*;
# fn main() {
assert_type_eq!(op!(abs(N2)), P2);
# }
```

---
Operator `cube`. Expands to `Cube`.

```rust
# #[macro_use] extern crate typenum;
# use typenum::*;
# fn main() {
assert_type_eq!(op!(cube(P2)), P8);
# }
```

---
Operator `pow`. Expands to `Exp`.

```rust
# #[macro_use] extern crate typenum;
# use typenum::*;
# fn main() {
assert_type_eq!(op!(pow(P2, P3)), P8);
# }
```

---
Operator `min`. Expands to `Minimum`.

```rust
# #[macro_use] extern crate typenum;
# use typenum::*;
# fn main() {
assert_type_eq!(op!(min(P2, P3)), P2);
# }
```

---
Operator `max`. Expands to `Maximum`.

```rust
# #[macro_use] extern crate typenum;
# use typenum::*;
# fn main() {
assert_type_eq!(op!(max(P2, P3)), P3);
# }
```

---
Operator `log2`. Expands to `Log2`.

```rust
# #[macro_use] extern crate typenum;
# use typenum::*;
# fn main() {
assert_type_eq!(op!(log2(U9)), U3);
# }
```

---
Operator `gcd`. Expands to `Gcf`.

```rust
# #[macro_use] extern crate typenum;
# use typenum::*;
# fn main() {
assert_type_eq!(op!(gcd(U9, U21)), U3);
# }
```

*/
#[macro_export(local_inner_macros)]
macro_rules! op {
    ($($tail:tt)*) => ( __op_internal__!($($tail)*) );
}

    #[doc(hidden)]
    #[macro_export(local_inner_macros)]
    macro_rules! __op_internal__ {

(@stack[$($stack:ident,)*] @queue[$($queue:ident,)*] @tail: cmp $($tail:tt)*) => (
    __op_internal__!(@stack[Compare, $($stack,)*] @queue[$($queue,)*] @tail: $($tail)*)
);
(@stack[$($stack:ident,)*] @queue[$($queue:ident,)*] @tail: sqr $($tail:tt)*) => (
    __op_internal__!(@stack[Square, $($stack,)*] @queue[$($queue,)*] @tail: $($tail)*)
);
(@stack[$($stack:ident,)*] @queue[$($queue:ident,)*] @tail: sqrt $($tail:tt)*) => (
    __op_internal__!(@stack[Sqrt, $($stack,)*] @queue[$($queue,)*] @tail: $($tail)*)
);
(@stack[$($stack:ident,)*] @queue[$($queue:ident,)*] @tail: abs $($tail:tt)*) => (
    __op_internal__!(@stack[AbsVal, $($stack,)*] @queue[$($queue,)*] @tail: $($tail)*)
);
(@stack[$($stack:ident,)*] @queue[$($queue:ident,)*] @tail: cube $($tail:tt)*) => (
    __op_internal__!(@stack[Cube, $($stack,)*] @queue[$($queue,)*] @tail: $($tail)*)
);
(@stack[$($stack:ident,)*] @queue[$($queue:ident,)*] @tail: pow $($tail:tt)*) => (
    __op_internal__!(@stack[Exp, $($stack,)*] @queue[$($queue,)*] @tail: $($tail)*)
);
(@stack[$($stack:ident,)*] @queue[$($queue:ident,)*] @tail: min $($tail:tt)*) => (
    __op_internal__!(@stack[Minimum, $($stack,)*] @queue[$($queue,)*] @tail: $($tail)*)
);
(@stack[$($stack:ident,)*] @queue[$($queue:ident,)*] @tail: max $($tail:tt)*) => (
    __op_internal__!(@stack[Maximum, $($stack,)*] @queue[$($queue,)*] @tail: $($tail)*)
);
(@stack[$($stack:ident,)*] @queue[$($queue:ident,)*] @tail: log2 $($tail:tt)*) => (
    __op_internal__!(@stack[Log2, $($stack,)*] @queue[$($queue,)*] @tail: $($tail)*)
);
(@stack[$($stack:ident,)*] @queue[$($queue:ident,)*] @tail: gcd $($tail:tt)*) => (
    __op_internal__!(@stack[Gcf, $($stack,)*] @queue[$($queue,)*] @tail: $($tail)*)
);
(@stack[LParen, $($stack:ident,)*] @queue[$($queue:ident,)*] @tail: , $($tail:tt)*) => (
    __op_internal__!(@stack[LParen, $($stack,)*] @queue[$($queue,)*] @tail: $($tail)*)
);
(@stack[$stack_top:ident, $($stack:ident,)*] @queue[$($queue:ident,)*] @tail: , $($tail:tt)*) => (
    __op_internal__!(@stack[$($stack,)*] @queue[$stack_top, $($queue,)*] @tail: , $($tail)*)
);
(@stack[Prod, $($stack:ident,)*] @queue[$($queue:ident,)*] @tail: * $($tail:tt)*) => (
    __op_internal__!(@stack[$($stack,)*] @queue[Prod, $($queue,)*] @tail: * $($tail)*)
);
(@stack[Quot, $($stack:ident,)*] @queue[$($queue:ident,)*] @tail: * $($tail:tt)*) => (
    __op_internal__!(@stack[$($stack,)*] @queue[Quot, $($queue,)*] @tail: * $($tail)*)
);
(@stack[Mod, $($stack:ident,)*] @queue[$($queue:ident,)*] @tail: * $($tail:tt)*) => (
    __op_internal__!(@stack[$($stack,)*] @queue[Mod, $($queue,)*] @tail: * $($tail)*)
);
(@stack[$($stack:ident,)*] @queue[$($queue:ident,)*] @tail: * $($tail:tt)*) => (
    __op_internal__!(@stack[Prod, $($stack,)*] @queue[$($queue,)*] @tail: $($tail)*)
);
(@stack[Prod, $($stack:ident,)*] @queue[$($queue:ident,)*] @tail: / $($tail:tt)*) => (
    __op_internal__!(@stack[$($stack,)*] @queue[Prod, $($queue,)*] @tail: / $($tail)*)
);
(@stack[Quot, $($stack:ident,)*] @queue[$($queue:ident,)*] @tail: / $($tail:tt)*) => (
    __op_internal__!(@stack[$($stack,)*] @queue[Quot, $($queue,)*] @tail: / $($tail)*)
);
(@stack[Mod, $($stack:ident,)*] @queue[$($queue:ident,)*] @tail: / $($tail:tt)*) => (
    __op_internal__!(@stack[$($stack,)*] @queue[Mod, $($queue,)*] @tail: / $($tail)*)
);
(@stack[$($stack:ident,)*] @queue[$($queue:ident,)*] @tail: / $($tail:tt)*) => (
    __op_internal__!(@stack[Quot, $($stack,)*] @queue[$($queue,)*] @tail: $($tail)*)
);
(@stack[Prod, $($stack:ident,)*] @queue[$($queue:ident,)*] @tail: % $($tail:tt)*) => (
    __op_internal__!(@stack[$($stack,)*] @queue[Prod, $($queue,)*] @tail: % $($tail)*)
);
(@stack[Quot, $($stack:ident,)*] @queue[$($queue:ident,)*] @tail: % $($tail:tt)*) => (
    __op_internal__!(@stack[$($stack,)*] @queue[Quot, $($queue,)*] @tail: % $($tail)*)
);
(@stack[Mod, $($stack:ident,)*] @queue[$($queue:ident,)*] @tail: % $($tail:tt)*) => (
    __op_internal__!(@stack[$($stack,)*] @queue[Mod, $($queue,)*] @tail: % $($tail)*)
);
(@stack[$($stack:ident,)*] @queue[$($queue:ident,)*] @tail: % $($tail:tt)*) => (
    __op_internal__!(@stack[Mod, $($stack,)*] @queue[$($queue,)*] @tail: $($tail)*)
);
(@stack[Prod, $($stack:ident,)*] @queue[$($queue:ident,)*] @tail: + $($tail:tt)*) => (
    __op_internal__!(@stack[$($stack,)*] @queue[Prod, $($queue,)*] @tail: + $($tail)*)
);
(@stack[Quot, $($stack:ident,)*] @queue[$($queue:ident,)*] @tail: + $($tail:tt)*) => (
    __op_internal__!(@stack[$($stack,)*] @queue[Quot, $($queue,)*] @tail: + $($tail)*)
);
(@stack[Mod, $($stack:ident,)*] @queue[$($queue:ident,)*] @tail: + $($tail:tt)*) => (
    __op_internal__!(@stack[$($stack,)*] @queue[Mod, $($queue,)*] @tail: + $($tail)*)
);
(@stack[Sum, $($stack:ident,)*] @queue[$($queue:ident,)*] @tail: + $($tail:tt)*) => (
    __op_internal__!(@stack[$($stack,)*] @queue[Sum, $($queue,)*] @tail: + $($tail)*)
);
(@stack[Diff, $($stack:ident,)*] @queue[$($queue:ident,)*] @tail: + $($tail:tt)*) => (
    __op_internal__!(@stack[$($stack,)*] @queue[Diff, $($queue,)*] @tail: + $($tail)*)
);
(@stack[$($stack:ident,)*] @queue[$($queue:ident,)*] @tail: + $($tail:tt)*) => (
    __op_internal__!(@stack[Sum, $($stack,)*] @queue[$($queue,)*] @tail: $($tail)*)
);
(@stack[Prod, $($stack:ident,)*] @queue[$($queue:ident,)*] @tail: - $($tail:tt)*) => (
    __op_internal__!(@stack[$($stack,)*] @queue[Prod, $($queue,)*] @tail: - $($tail)*)
);
(@stack[Quot, $($stack:ident,)*] @queue[$($queue:ident,)*] @tail: - $($tail:tt)*) => (
    __op_internal__!(@stack[$($stack,)*] @queue[Quot, $($queue,)*] @tail: - $($tail)*)
);
(@stack[Mod, $($stack:ident,)*] @queue[$($queue:ident,)*] @tail: - $($tail:tt)*) => (
    __op_internal__!(@stack[$($stack,)*] @queue[Mod, $($queue,)*] @tail: - $($tail)*)
);
(@stack[Sum, $($stack:ident,)*] @queue[$($queue:ident,)*] @tail: - $($tail:tt)*) => (
    __op_internal__!(@stack[$($stack,)*] @queue[Sum, $($queue,)*] @tail: - $($tail)*)
);
(@stack[Diff, $($stack:ident,)*] @queue[$($queue:ident,)*] @tail: - $($tail:tt)*) => (
    __op_internal__!(@stack[$($stack,)*] @queue[Diff, $($queue,)*] @tail: - $($tail)*)
);
(@stack[$($stack:ident,)*] @queue[$($queue:ident,)*] @tail: - $($tail:tt)*) => (
    __op_internal__!(@stack[Diff, $($stack,)*] @queue[$($queue,)*] @tail: $($tail)*)
);
(@stack[Prod, $($stack:ident,)*] @queue[$($queue:ident,)*] @tail: << $($tail:tt)*) => (
    __op_internal__!(@stack[$($stack,)*] @queue[Prod, $($queue,)*] @tail: << $($tail)*)
);
(@stack[Quot, $($stack:ident,)*] @queue[$($queue:ident,)*] @tail: << $($tail:tt)*) => (
    __op_internal__!(@stack[$($stack,)*] @queue[Quot, $($queue,)*] @tail: << $($tail)*)
);
(@stack[Mod, $($stack:ident,)*] @queue[$($queue:ident,)*] @tail: << $($tail:tt)*) => (
    __op_internal__!(@stack[$($stack,)*] @queue[Mod, $($queue,)*] @tail: << $($tail)*)
);
(@stack[Sum, $($stack:ident,)*] @queue[$($queue:ident,)*] @tail: << $($tail:tt)*) => (
    __op_internal__!(@stack[$($stack,)*] @queue[Sum, $($queue,)*] @tail: << $($tail)*)
);
(@stack[Diff, $($stack:ident,)*] @queue[$($queue:ident,)*] @tail: << $($tail:tt)*) => (
    __op_internal__!(@stack[$($stack,)*] @queue[Diff, $($queue,)*] @tail: << $($tail)*)
);
(@stack[Shleft, $($stack:ident,)*] @queue[$($queue:ident,)*] @tail: << $($tail:tt)*) => (
    __op_internal__!(@stack[$($stack,)*] @queue[Shleft, $($queue,)*] @tail: << $($tail)*)
);
(@stack[Shright, $($stack:ident,)*] @queue[$($queue:ident,)*] @tail: << $($tail:tt)*) => (
    __op_internal__!(@stack[$($stack,)*] @queue[Shright, $($queue,)*] @tail: << $($tail)*)
);
(@stack[$($stack:ident,)*] @queue[$($queue:ident,)*] @tail: << $($tail:tt)*) => (
    __op_internal__!(@stack[Shleft, $($stack,)*] @queue[$($queue,)*] @tail: $($tail)*)
);
(@stack[Prod, $($stack:ident,)*] @queue[$($queue:ident,)*] @tail: >> $($tail:tt)*) => (
    __op_internal__!(@stack[$($stack,)*] @queue[Prod, $($queue,)*] @tail: >> $($tail)*)
);
(@stack[Quot, $($stack:ident,)*] @queue[$($queue:ident,)*] @tail: >> $($tail:tt)*) => (
    __op_internal__!(@stack[$($stack,)*] @queue[Quot, $($queue,)*] @tail: >> $($tail)*)
);
(@stack[Mod, $($stack:ident,)*] @queue[$($queue:ident,)*] @tail: >> $($tail:tt)*) => (
    __op_internal__!(@stack[$($stack,)*] @queue[Mod, $($queue,)*] @tail: >> $($tail)*)
);
(@stack[Sum, $($stack:ident,)*] @queue[$($queue:ident,)*] @tail: >> $($tail:tt)*) => (
    __op_internal__!(@stack[$($stack,)*] @queue[Sum, $($queue,)*] @tail: >> $($tail)*)
);
(@stack[Diff, $($stack:ident,)*] @queue[$($queue:ident,)*] @tail: >> $($tail:tt)*) => (
    __op_internal__!(@stack[$($stack,)*] @queue[Diff, $($queue,)*] @tail: >> $($tail)*)
);
(@stack[Shleft, $($stack:ident,)*] @queue[$($queue:ident,)*] @tail: >> $($tail:tt)*) => (
    __op_internal__!(@stack[$($stack,)*] @queue[Shleft, $($queue,)*] @tail: >> $($tail)*)
);
(@stack[Shright, $($stack:ident,)*] @queue[$($queue:ident,)*] @tail: >> $($tail:tt)*) => (
    __op_internal__!(@stack[$($stack,)*] @queue[Shright, $($queue,)*] @tail: >> $($tail)*)
);
(@stack[$($stack:ident,)*] @queue[$($queue:ident,)*] @tail: >> $($tail:tt)*) => (
    __op_internal__!(@stack[Shright, $($stack,)*] @queue[$($queue,)*] @tail: $($tail)*)
);
(@stack[Prod, $($stack:ident,)*] @queue[$($queue:ident,)*] @tail: & $($tail:tt)*) => (
    __op_internal__!(@stack[$($stack,)*] @queue[Prod, $($queue,)*] @tail: & $($tail)*)
);
(@stack[Quot, $($stack:ident,)*] @queue[$($queue:ident,)*] @tail: & $($tail:tt)*) => (
    __op_internal__!(@stack[$($stack,)*] @queue[Quot, $($queue,)*] @tail: & $($tail)*)
);
(@stack[Mod, $($stack:ident,)*] @queue[$($queue:ident,)*] @tail: & $($tail:tt)*) => (
    __op_internal__!(@stack[$($stack,)*] @queue[Mod, $($queue,)*] @tail: & $($tail)*)
);
(@stack[Sum, $($stack:ident,)*] @queue[$($queue:ident,)*] @tail: & $($tail:tt)*) => (
    __op_internal__!(@stack[$($stack,)*] @queue[Sum, $($queue,)*] @tail: & $($tail)*)
);
(@stack[Diff, $($stack:ident,)*] @queue[$($queue:ident,)*] @tail: & $($tail:tt)*) => (
    __op_internal__!(@stack[$($stack,)*] @queue[Diff, $($queue,)*] @tail: & $($tail)*)
);
(@stack[Shleft, $($stack:ident,)*] @queue[$($queue:ident,)*] @tail: & $($tail:tt)*) => (
    __op_internal__!(@stack[$($stack,)*] @queue[Shleft, $($queue,)*] @tail: & $($tail)*)
);
(@stack[Shright, $($stack:ident,)*] @queue[$($queue:ident,)*] @tail: & $($tail:tt)*) => (
    __op_internal__!(@stack[$($stack,)*] @queue[Shright, $($queue,)*] @tail: & $($tail)*)
);
(@stack[And, $($stack:ident,)*] @queue[$($queue:ident,)*] @tail: & $($tail:tt)*) => (
    __op_internal__!(@stack[$($stack,)*] @queue[And, $($queue,)*] @tail: & $($tail)*)
);
(@stack[$($stack:ident,)*] @queue[$($queue:ident,)*] @tail: & $($tail:tt)*) => (
    __op_internal__!(@stack[And, $($stack,)*] @queue[$($queue,)*] @tail: $($tail)*)
);
(@stack[Prod, $($stack:ident,)*] @queue[$($queue:ident,)*] @tail: ^ $($tail:tt)*) => (
    __op_internal__!(@stack[$($stack,)*] @queue[Prod, $($queue,)*] @tail: ^ $($tail)*)
);
(@stack[Quot, $($stack:ident,)*] @queue[$($queue:ident,)*] @tail: ^ $($tail:tt)*) => (
    __op_internal__!(@stack[$($stack,)*] @queue[Quot, $($queue,)*] @tail: ^ $($tail)*)
);
(@stack[Mod, $($stack:ident,)*] @queue[$($queue:ident,)*] @tail: ^ $($tail:tt)*) => (
    __op_internal__!(@stack[$($stack,)*] @queue[Mod, $($queue,)*] @tail: ^ $($tail)*)
);
(@stack[Sum, $($stack:ident,)*] @queue[$($queue:ident,)*] @tail: ^ $($tail:tt)*) => (
    __op_internal__!(@stack[$($stack,)*] @queue[Sum, $($queue,)*] @tail: ^ $($tail)*)
);
(@stack[Diff, $($stack:ident,)*] @queue[$($queue:ident,)*] @tail: ^ $($tail:tt)*) => (
    __op_internal__!(@stack[$($stack,)*] @queue[Diff, $($queue,)*] @tail: ^ $($tail)*)
);
(@stack[Shleft, $($stack:ident,)*] @queue[$($queue:ident,)*] @tail: ^ $($tail:tt)*) => (
    __op_internal__!(@stack[$($stack,)*] @queue[Shleft, $($queue,)*] @tail: ^ $($tail)*)
);
(@stack[Shright, $($stack:ident,)*] @queue[$($queue:ident,)*] @tail: ^ $($tail:tt)*) => (
    __op_internal__!(@stack[$($stack,)*] @queue[Shright, $($queue,)*] @tail: ^ $($tail)*)
);
(@stack[And, $($stack:ident,)*] @queue[$($queue:ident,)*] @tail: ^ $($tail:tt)*) => (
    __op_internal__!(@stack[$($stack,)*] @queue[And, $($queue,)*] @tail: ^ $($tail)*)
);
(@stack[Xor, $($stack:ident,)*] @queue[$($queue:ident,)*] @tail: ^ $($tail:tt)*) => (
    __op_internal__!(@stack[$($stack,)*] @queue[Xor, $($queue,)*] @tail: ^ $($tail)*)
);
(@stack[$($stack:ident,)*] @queue[$($queue:ident,)*] @tail: ^ $($tail:tt)*) => (
    __op_internal__!(@stack[Xor, $($stack,)*] @queue[$($queue,)*] @tail: $($tail)*)
);
(@stack[Prod, $($stack:ident,)*] @queue[$($queue:ident,)*] @tail: | $($tail:tt)*) => (
    __op_internal__!(@stack[$($stack,)*] @queue[Prod, $($queue,)*] @tail: | $($tail)*)
);
(@stack[Quot, $($stack:ident,)*] @queue[$($queue:ident,)*] @tail: | $($tail:tt)*) => (
    __op_internal__!(@stack[$($stack,)*] @queue[Quot, $($queue,)*] @tail: | $($tail)*)
);
(@stack[Mod, $($stack:ident,)*] @queue[$($queue:ident,)*] @tail: | $($tail:tt)*) => (
    __op_internal__!(@stack[$($stack,)*] @queue[Mod, $($queue,)*] @tail: | $($tail)*)
);
(@stack[Sum, $($stack:ident,)*] @queue[$($queue:ident,)*] @tail: | $($tail:tt)*) => (
    __op_internal__!(@stack[$($stack,)*] @queue[Sum, $($queue,)*] @tail: | $($tail)*)
);
(@stack[Diff, $($stack:ident,)*] @queue[$($queue:ident,)*] @tail: | $($tail:tt)*) => (
    __op_internal__!(@stack[$($stack,)*] @queue[Diff, $($queue,)*] @tail: | $($tail)*)
);
(@stack[Shleft, $($stack:ident,)*] @queue[$($queue:ident,)*] @tail: | $($tail:tt)*) => (
    __op_internal__!(@stack[$($stack,)*] @queue[Shleft, $($queue,)*] @tail: | $($tail)*)
);
(@stack[Shright, $($stack:ident,)*] @queue[$($queue:ident,)*] @tail: | $($tail:tt)*) => (
    __op_internal__!(@stack[$($stack,)*] @queue[Shright, $($queue,)*] @tail: | $($tail)*)
);
(@stack[And, $($stack:ident,)*] @queue[$($queue:ident,)*] @tail: | $($tail:tt)*) => (
    __op_internal__!(@stack[$($stack,)*] @queue[And, $($queue,)*] @tail: | $($tail)*)
);
(@stack[Xor, $($stack:ident,)*] @queue[$($queue:ident,)*] @tail: | $($tail:tt)*) => (
    __op_internal__!(@stack[$($stack,)*] @queue[Xor, $($queue,)*] @tail: | $($tail)*)
);
(@stack[Or, $($stack:ident,)*] @queue[$($queue:ident,)*] @tail: | $($tail:tt)*) => (
    __op_internal__!(@stack[$($stack,)*] @queue[Or, $($queue,)*] @tail: | $($tail)*)
);
(@stack[$($stack:ident,)*] @queue[$($queue:ident,)*] @tail: | $($tail:tt)*) => (
    __op_internal__!(@stack[Or, $($stack,)*] @queue[$($queue,)*] @tail: $($tail)*)
);
(@stack[Prod, $($stack:ident,)*] @queue[$($queue:ident,)*] @tail: == $($tail:tt)*) => (
    __op_internal__!(@stack[$($stack,)*] @queue[Prod, $($queue,)*] @tail: == $($tail)*)
);
(@stack[Quot, $($stack:ident,)*] @queue[$($queue:ident,)*] @tail: == $($tail:tt)*) => (
    __op_internal__!(@stack[$($stack,)*] @queue[Quot, $($queue,)*] @tail: == $($tail)*)
);
(@stack[Mod, $($stack:ident,)*] @queue[$($queue:ident,)*] @tail: == $($tail:tt)*) => (
    __op_internal__!(@stack[$($stack,)*] @queue[Mod, $($queue,)*] @tail: == $($tail)*)
);
(@stack[Sum, $($stack:ident,)*] @queue[$($queue:ident,)*] @tail: == $($tail:tt)*) => (
    __op_internal__!(@stack[$($stack,)*] @queue[Sum, $($queue,)*] @tail: == $($tail)*)
);
(@stack[Diff, $($stack:ident,)*] @queue[$($queue:ident,)*] @tail: == $($tail:tt)*) => (
    __op_internal__!(@stack[$($stack,)*] @queue[Diff, $($queue,)*] @tail: == $($tail)*)
);
(@stack[Shleft, $($stack:ident,)*] @queue[$($queue:ident,)*] @tail: == $($tail:tt)*) => (
    __op_internal__!(@stack[$($stack,)*] @queue[Shleft, $($queue,)*] @tail: == $($tail)*)
);
(@stack[Shright, $($stack:ident,)*] @queue[$($queue:ident,)*] @tail: == $($tail:tt)*) => (
    __op_internal__!(@stack[$($stack,)*] @queue[Shright, $($queue,)*] @tail: == $($tail)*)
);
(@stack[And, $($stack:ident,)*] @queue[$($queue:ident,)*] @tail: == $($tail:tt)*) => (
    __op_internal__!(@stack[$($stack,)*] @queue[And, $($queue,)*] @tail: == $($tail)*)
);
(@stack[Xor, $($stack:ident,)*] @queue[$($queue:ident,)*] @tail: == $($tail:tt)*) => (
    __op_internal__!(@stack[$($stack,)*] @queue[Xor, $($queue,)*] @tail: == $($tail)*)
);
(@stack[Or, $($stack:ident,)*] @queue[$($queue:ident,)*] @tail: == $($tail:tt)*) => (
    __op_internal__!(@stack[$($stack,)*] @queue[Or, $($queue,)*] @tail: == $($tail)*)
);
(@stack[Eq, $($stack:ident,)*] @queue[$($queue:ident,)*] @tail: == $($tail:tt)*) => (
    __op_internal__!(@stack[$($stack,)*] @queue[Eq, $($queue,)*] @tail: == $($tail)*)
);
(@stack[NotEq, $($stack:ident,)*] @queue[$($queue:ident,)*] @tail: == $($tail:tt)*) => (
    __op_internal__!(@stack[$($stack,)*] @queue[NotEq, $($queue,)*] @tail: == $($tail)*)
);
(@stack[LeEq, $($stack:ident,)*] @queue[$($queue:ident,)*] @tail: == $($tail:tt)*) => (
    __op_internal__!(@stack[$($stack,)*] @queue[LeEq, $($queue,)*] @tail: == $($tail)*)
);
(@stack[GrEq, $($stack:ident,)*] @queue[$($queue:ident,)*] @tail: == $($tail:tt)*) => (
    __op_internal__!(@stack[$($stack,)*] @queue[GrEq, $($queue,)*] @tail: == $($tail)*)
);
(@stack[Le, $($stack:ident,)*] @queue[$($queue:ident,)*] @tail: == $($tail:tt)*) => (
    __op_internal__!(@stack[$($stack,)*] @queue[Le, $($queue,)*] @tail: == $($tail)*)
);
(@stack[Gr, $($stack:ident,)*] @queue[$($queue:ident,)*] @tail: == $($tail:tt)*) => (
    __op_internal__!(@stack[$($stack,)*] @queue[Gr, $($queue,)*] @tail: == $($tail)*)
);
(@stack[$($stack:ident,)*] @queue[$($queue:ident,)*] @tail: == $($tail:tt)*) => (
    __op_internal__!(@stack[Eq, $($stack,)*] @queue[$($queue,)*] @tail: $($tail)*)
);
(@stack[Prod, $($stack:ident,)*] @queue[$($queue:ident,)*] @tail: != $($tail:tt)*) => (
    __op_internal__!(@stack[$($stack,)*] @queue[Prod, $($queue,)*] @tail: != $($tail)*)
);
(@stack[Quot, $($stack:ident,)*] @queue[$($queue:ident,)*] @tail: != $($tail:tt)*) => (
    __op_internal__!(@stack[$($stack,)*] @queue[Quot, $($queue,)*] @tail: != $($tail)*)
);
(@stack[Mod, $($stack:ident,)*] @queue[$($queue:ident,)*] @tail: != $($tail:tt)*) => (
    __op_internal__!(@stack[$($stack,)*] @queue[Mod, $($queue,)*] @tail: != $($tail)*)
);
(@stack[Sum, $($stack:ident,)*] @queue[$($queue:ident,)*] @tail: != $($tail:tt)*) => (
    __op_internal__!(@stack[$($stack,)*] @queue[Sum, $($queue,)*] @tail: != $($tail)*)
);
(@stack[Diff, $($stack:ident,)*] @queue[$($queue:ident,)*] @tail: != $($tail:tt)*) => (
    __op_internal__!(@stack[$($stack,)*] @queue[Diff, $($queue,)*] @tail: != $($tail)*)
);
(@stack[Shleft, $($stack:ident,)*] @queue[$($queue:ident,)*] @tail: != $($tail:tt)*) => (
    __op_internal__!(@stack[$($stack,)*] @queue[Shleft, $($queue,)*] @tail: != $($tail)*)
);
(@stack[Shright, $($stack:ident,)*] @queue[$($queue:ident,)*] @tail: != $($tail:tt)*) => (
    __op_internal__!(@stack[$($stack,)*] @queue[Shright, $($queue,)*] @tail: != $($tail)*)
);
(@stack[And, $($stack:ident,)*] @queue[$($queue:ident,)*] @tail: != $($tail:tt)*) => (
    __op_internal__!(@stack[$($stack,)*] @queue[And, $($queue,)*] @tail: != $($tail)*)
);
(@stack[Xor, $($stack:ident,)*] @queue[$($queue:ident,)*] @tail: != $($tail:tt)*) => (
    __op_internal__!(@stack[$($stack,)*] @queue[Xor, $($queue,)*] @tail: != $($tail)*)
);
(@stack[Or, $($stack:ident,)*] @queue[$($queue:ident,)*] @tail: != $($tail:tt)*) => (
    __op_internal__!(@stack[$($stack,)*] @queue[Or, $($queue,)*] @tail: != $($tail)*)
);
(@stack[Eq, $($stack:ident,)*] @queue[$($queue:ident,)*] @tail: != $($tail:tt)*) => (
    __op_internal__!(@stack[$($stack,)*] @queue[Eq, $($queue,)*] @tail: != $($tail)*)
);
(@stack[NotEq, $($stack:ident,)*] @queue[$($queue:ident,)*] @tail: != $($tail:tt)*) => (
    __op_internal__!(@stack[$($stack,)*] @queue[NotEq, $($queue,)*] @tail: != $($tail)*)
);
(@stack[LeEq, $($stack:ident,)*] @queue[$($queue:ident,)*] @tail: != $($tail:tt)*) => (
    __op_internal__!(@stack[$($stack,)*] @queue[LeEq, $($queue,)*] @tail: != $($tail)*)
);
(@stack[GrEq, $($stack:ident,)*] @queue[$($queue:ident,)*] @tail: != $($tail:tt)*) => (
    __op_internal__!(@stack[$($stack,)*] @queue[GrEq, $($queue,)*] @tail: != $($tail)*)
);
(@stack[Le, $($stack:ident,)*] @queue[$($queue:ident,)*] @tail: != $($tail:tt)*) => (
    __op_internal__!(@stack[$($stack,)*] @queue[Le, $($queue,)*] @tail: != $($tail)*)
);
(@stack[Gr, $($stack:ident,)*] @queue[$($queue:ident,)*] @tail: != $($tail:tt)*) => (
    __op_internal__!(@stack[$($stack,)*] @queue[Gr, $($queue,)*] @tail: != $($tail)*)
);
(@stack[$($stack:ident,)*] @queue[$($queue:ident,)*] @tail: != $($tail:tt)*) => (
    __op_internal__!(@stack[NotEq, $($stack,)*] @queue[$($queue,)*] @tail: $($tail)*)
);
(@stack[Prod, $($stack:ident,)*] @queue[$($queue:ident,)*] @tail: <= $($tail:tt)*) => (
    __op_internal__!(@stack[$($stack,)*] @queue[Prod, $($queue,)*] @tail: <= $($tail)*)
);
(@stack[Quot, $($stack:ident,)*] @queue[$($queue:ident,)*] @tail: <= $($tail:tt)*) => (
    __op_internal__!(@stack[$($stack,)*] @queue[Quot, $($queue,)*] @tail: <= $($tail)*)
);
(@stack[Mod, $($stack:ident,)*] @queue[$($queue:ident,)*] @tail: <= $($tail:tt)*) => (
    __op_internal__!(@stack[$($stack,)*] @queue[Mod, $($queue,)*] @tail: <= $($tail)*)
);
(@stack[Sum, $($stack:ident,)*] @queue[$($queue:ident,)*] @tail: <= $($tail:tt)*) => (
    __op_internal__!(@stack[$($stack,)*] @queue[Sum, $($queue,)*] @tail: <= $($tail)*)
);
(@stack[Diff, $($stack:ident,)*] @queue[$($queue:ident,)*] @tail: <= $($tail:tt)*) => (
    __op_internal__!(@stack[$($stack,)*] @queue[Diff, $($queue,)*] @tail: <= $($tail)*)
);
(@stack[Shleft, $($stack:ident,)*] @queue[$($queue:ident,)*] @tail: <= $($tail:tt)*) => (
    __op_internal__!(@stack[$($stack,)*] @queue[Shleft, $($queue,)*] @tail: <= $($tail)*)
);
(@stack[Shright, $($stack:ident,)*] @queue[$($queue:ident,)*] @tail: <= $($tail:tt)*) => (
    __op_internal__!(@stack[$($stack,)*] @queue[Shright, $($queue,)*] @tail: <= $($tail)*)
);
(@stack[And, $($stack:ident,)*] @queue[$($queue:ident,)*] @tail: <= $($tail:tt)*) => (
    __op_internal__!(@stack[$($stack,)*] @queue[And, $($queue,)*] @tail: <= $($tail)*)
);
(@stack[Xor, $($stack:ident,)*] @queue[$($queue:ident,)*] @tail: <= $($tail:tt)*) => (
    __op_internal__!(@stack[$($stack,)*] @queue[Xor, $($queue,)*] @tail: <= $($tail)*)
);
(@stack[Or, $($stack:ident,)*] @queue[$($queue:ident,)*] @tail: <= $($tail:tt)*) => (
    __op_internal__!(@stack[$($stack,)*] @queue[Or, $($queue,)*] @tail: <= $($tail)*)
);
(@stack[Eq, $($stack:ident,)*] @queue[$($queue:ident,)*] @tail: <= $($tail:tt)*) => (
    __op_internal__!(@stack[$($stack,)*] @queue[Eq, $($queue,)*] @tail: <= $($tail)*)
);
(@stack[NotEq, $($stack:ident,)*] @queue[$($queue:ident,)*] @tail: <= $($tail:tt)*) => (
    __op_internal__!(@stack[$($stack,)*] @queue[NotEq, $($queue,)*] @tail: <= $($tail)*)
);
(@stack[LeEq, $($stack:ident,)*] @queue[$($queue:ident,)*] @tail: <= $($tail:tt)*) => (
    __op_internal__!(@stack[$($stack,)*] @queue[LeEq, $($queue,)*] @tail: <= $($tail)*)
);
(@stack[GrEq, $($stack:ident,)*] @queue[$($queue:ident,)*] @tail: <= $($tail:tt)*) => (
    __op_internal__!(@stack[$($stack,)*] @queue[GrEq, $($queue,)*] @tail: <= $($tail)*)
);
(@stack[Le, $($stack:ident,)*] @queue[$($queue:ident,)*] @tail: <= $($tail:tt)*) => (
    __op_internal__!(@stack[$($stack,)*] @queue[Le, $($queue,)*] @tail: <= $($tail)*)
);
(@stack[Gr, $($stack:ident,)*] @queue[$($queue:ident,)*] @tail: <= $($tail:tt)*) => (
    __op_internal__!(@stack[$($stack,)*] @queue[Gr, $($queue,)*] @tail: <= $($tail)*)
);
(@stack[$($stack:ident,)*] @queue[$($queue:ident,)*] @tail: <= $($tail:tt)*) => (
    __op_internal__!(@stack[LeEq, $($stack,)*] @queue[$($queue,)*] @tail: $($tail)*)
);
(@stack[Prod, $($stack:ident,)*] @queue[$($queue:ident,)*] @tail: >= $($tail:tt)*) => (
    __op_internal__!(@stack[$($stack,)*] @queue[Prod, $($queue,)*] @tail: >= $($tail)*)
);
(@stack[Quot, $($stack:ident,)*] @queue[$($queue:ident,)*] @tail: >= $($tail:tt)*) => (
    __op_internal__!(@stack[$($stack,)*] @queue[Quot, $($queue,)*] @tail: >= $($tail)*)
);
(@stack[Mod, $($stack:ident,)*] @queue[$($queue:ident,)*] @tail: >= $($tail:tt)*) => (
    __op_internal__!(@stack[$($stack,)*] @queue[Mod, $($queue,)*] @tail: >= $($tail)*)
);
(@stack[Sum, $($stack:ident,)*] @queue[$($queue:ident,)*] @tail: >= $($tail:tt)*) => (
    __op_internal__!(@stack[$($stack,)*] @queue[Sum, $($queue,)*] @tail: >= $($tail)*)
);
(@stack[Diff, $($stack:ident,)*] @queue[$($queue:ident,)*] @tail: >= $($tail:tt)*) => (
    __op_internal__!(@stack[$($stack,)*] @queue[Diff, $($queue,)*] @tail: >= $($tail)*)
);
(@stack[Shleft, $($stack:ident,)*] @queue[$($queue:ident,)*] @tail: >= $($tail:tt)*) => (
    __op_internal__!(@stack[$($stack,)*] @queue[Shleft, $($queue,)*] @tail: >= $($tail)*)
);
(@stack[Shright, $($stack:ident,)*] @queue[$($queue:ident,)*] @tail: >= $($tail:tt)*) => (
    __op_internal__!(@stack[$($stack,)*] @queue[Shright, $($queue,)*] @tail: >= $($tail)*)
);
(@stack[And, $($stack:ident,)*] @queue[$($queue:ident,)*] @tail: >= $($tail:tt)*) => (
    __op_internal__!(@stack[$($stack,)*] @queue[And, $($queue,)*] @tail: >= $($tail)*)
);
(@stack[Xor, $($stack:ident,)*] @queue[$($queue:ident,)*] @tail: >= $($tail:tt)*) => (
    __op_internal__!(@stack[$($stack,)*] @queue[Xor, $($queue,)*] @tail: >= $($tail)*)
);
(@stack[Or, $($stack:ident,)*] @queue[$($queue:ident,)*] @tail: >= $($tail:tt)*) => (
    __op_internal__!(@stack[$($stack,)*] @queue[Or, $($queue,)*] @tail: >= $($tail)*)
);
(@stack[Eq, $($stack:ident,)*] @queue[$($queue:ident,)*] @tail: >= $($tail:tt)*) => (
    __op_internal__!(@stack[$($stack,)*] @queue[Eq, $($queue,)*] @tail: >= $($tail)*)
);
(@stack[NotEq, $($stack:ident,)*] @queue[$($queue:ident,)*] @tail: >= $($tail:tt)*) => (
    __op_internal__!(@stack[$($stack,)*] @queue[NotEq, $($queue,)*] @tail: >= $($tail)*)
);
(@stack[LeEq, $($stack:ident,)*] @queue[$($queue:ident,)*] @tail: >= $($tail:tt)*) => (
    __op_internal__!(@stack[$($stack,)*] @queue[LeEq, $($queue,)*] @tail: >= $($tail)*)
);
(@stack[GrEq, $($stack:ident,)*] @queue[$($queue:ident,)*] @tail: >= $($tail:tt)*) => (
    __op_internal__!(@stack[$($stack,)*] @queue[GrEq, $($queue,)*] @tail: >= $($tail)*)
);
(@stack[Le, $($stack:ident,)*] @queue[$($queue:ident,)*] @tail: >= $($tail:tt)*) => (
    __op_internal__!(@stack[$($stack,)*] @queue[Le, $($queue,)*] @tail: >= $($tail)*)
);
(@stack[Gr, $($stack:ident,)*] @queue[$($queue:ident,)*] @tail: >= $($tail:tt)*) => (
    __op_internal__!(@stack[$($stack,)*] @queue[Gr, $($queue,)*] @tail: >= $($tail)*)
);
(@stack[$($stack:ident,)*] @queue[$($queue:ident,)*] @tail: >= $($tail:tt)*) => (
    __op_internal__!(@stack[GrEq, $($stack,)*] @queue[$($queue,)*] @tail: $($tail)*)
);
(@stack[Prod, $($stack:ident,)*] @queue[$($queue:ident,)*] @tail: < $($tail:tt)*) => (
    __op_internal__!(@stack[$($stack,)*] @queue[Prod, $($queue,)*] @tail: < $($tail)*)
);
(@stack[Quot, $($stack:ident,)*] @queue[$($queue:ident,)*] @tail: < $($tail:tt)*) => (
    __op_internal__!(@stack[$($stack,)*] @queue[Quot, $($queue,)*] @tail: < $($tail)*)
);
(@stack[Mod, $($stack:ident,)*] @queue[$($queue:ident,)*] @tail: < $($tail:tt)*) => (
    __op_internal__!(@stack[$($stack,)*] @queue[Mod, $($queue,)*] @tail: < $($tail)*)
);
(@stack[Sum, $($stack:ident,)*] @queue[$($queue:ident,)*] @tail: < $($tail:tt)*) => (
    __op_internal__!(@stack[$($stack,)*] @queue[Sum, $($queue,)*] @tail: < $($tail)*)
);
(@stack[Diff, $($stack:ident,)*] @queue[$($queue:ident,)*] @tail: < $($tail:tt)*) => (
    __op_internal__!(@stack[$($stack,)*] @queue[Diff, $($queue,)*] @tail: < $($tail)*)
);
(@stack[Shleft, $($stack:ident,)*] @queue[$($queue:ident,)*] @tail: < $($tail:tt)*) => (
    __op_internal__!(@stack[$($stack,)*] @queue[Shleft, $($queue,)*] @tail: < $($tail)*)
);
(@stack[Shright, $($stack:ident,)*] @queue[$($queue:ident,)*] @tail: < $($tail:tt)*) => (
    __op_internal__!(@stack[$($stack,)*] @queue[Shright, $($queue,)*] @tail: < $($tail)*)
);
(@stack[And, $($stack:ident,)*] @queue[$($queue:ident,)*] @tail: < $($tail:tt)*) => (
    __op_internal__!(@stack[$($stack,)*] @queue[And, $($queue,)*] @tail: < $($tail)*)
);
(@stack[Xor, $($stack:ident,)*] @queue[$($queue:ident,)*] @tail: < $($tail:tt)*) => (
    __op_internal__!(@stack[$($stack,)*] @queue[Xor, $($queue,)*] @tail: < $($tail)*)
);
(@stack[Or, $($stack:ident,)*] @queue[$($queue:ident,)*] @tail: < $($tail:tt)*) => (
    __op_internal__!(@stack[$($stack,)*] @queue[Or, $($queue,)*] @tail: < $($tail)*)
);
(@stack[Eq, $($stack:ident,)*] @queue[$($queue:ident,)*] @tail: < $($tail:tt)*) => (
    __op_internal__!(@stack[$($stack,)*] @queue[Eq, $($queue,)*] @tail: < $($tail)*)
);
(@stack[NotEq, $($stack:ident,)*] @queue[$($queue:ident,)*] @tail: < $($tail:tt)*) => (
    __op_internal__!(@stack[$($stack,)*] @queue[NotEq, $($queue,)*] @tail: < $($tail)*)
);
(@stack[LeEq, $($stack:ident,)*] @queue[$($queue:ident,)*] @tail: < $($tail:tt)*) => (
    __op_internal__!(@stack[$($stack,)*] @queue[LeEq, $($queue,)*] @tail: < $($tail)*)
);
(@stack[GrEq, $($stack:ident,)*] @queue[$($queue:ident,)*] @tail: < $($tail:tt)*) => (
    __op_internal__!(@stack[$($stack,)*] @queue[GrEq, $($queue,)*] @tail: < $($tail)*)
);
(@stack[Le, $($stack:ident,)*] @queue[$($queue:ident,)*] @tail: < $($tail:tt)*) => (
    __op_internal__!(@stack[$($stack,)*] @queue[Le, $($queue,)*] @tail: < $($tail)*)
);
(@stack[Gr, $($stack:ident,)*] @queue[$($queue:ident,)*] @tail: < $($tail:tt)*) => (
    __op_internal__!(@stack[$($stack,)*] @queue[Gr, $($queue,)*] @tail: < $($tail)*)
);
(@stack[$($stack:ident,)*] @queue[$($queue:ident,)*] @tail: < $($tail:tt)*) => (
    __op_internal__!(@stack[Le, $($stack,)*] @queue[$($queue,)*] @tail: $($tail)*)
);
(@stack[Prod, $($stack:ident,)*] @queue[$($queue:ident,)*] @tail: > $($tail:tt)*) => (
    __op_internal__!(@stack[$($stack,)*] @queue[Prod, $($queue,)*] @tail: > $($tail)*)
);
(@stack[Quot, $($stack:ident,)*] @queue[$($queue:ident,)*] @tail: > $($tail:tt)*) => (
    __op_internal__!(@stack[$($stack,)*] @queue[Quot, $($queue,)*] @tail: > $($tail)*)
);
(@stack[Mod, $($stack:ident,)*] @queue[$($queue:ident,)*] @tail: > $($tail:tt)*) => (
    __op_internal__!(@stack[$($stack,)*] @queue[Mod, $($queue,)*] @tail: > $($tail)*)
);
(@stack[Sum, $($stack:ident,)*] @queue[$($queue:ident,)*] @tail: > $($tail:tt)*) => (
    __op_internal__!(@stack[$($stack,)*] @queue[Sum, $($queue,)*] @tail: > $($tail)*)
);
(@stack[Diff, $($stack:ident,)*] @queue[$($queue:ident,)*] @tail: > $($tail:tt)*) => (
    __op_internal__!(@stack[$($stack,)*] @queue[Diff, $($queue,)*] @tail: > $($tail)*)
);
(@stack[Shleft, $($stack:ident,)*] @queue[$($queue:ident,)*] @tail: > $($tail:tt)*) => (
    __op_internal__!(@stack[$($stack,)*] @queue[Shleft, $($queue,)*] @tail: > $($tail)*)
);
(@stack[Shright, $($stack:ident,)*] @queue[$($queue:ident,)*] @tail: > $($tail:tt)*) => (
    __op_internal__!(@stack[$($stack,)*] @queue[Shright, $($queue,)*] @tail: > $($tail)*)
);
(@stack[And, $($stack:ident,)*] @queue[$($queue:ident,)*] @tail: > $($tail:tt)*) => (
    __op_internal__!(@stack[$($stack,)*] @queue[And, $($queue,)*] @tail: > $($tail)*)
);
(@stack[Xor, $($stack:ident,)*] @queue[$($queue:ident,)*] @tail: > $($tail:tt)*) => (
    __op_internal__!(@stack[$($stack,)*] @queue[Xor, $($queue,)*] @tail: > $($tail)*)
);
(@stack[Or, $($stack:ident,)*] @queue[$($queue:ident,)*] @tail: > $($tail:tt)*) => (
    __op_internal__!(@stack[$($stack,)*] @queue[Or, $($queue,)*] @tail: > $($tail)*)
);
(@stack[Eq, $($stack:ident,)*] @queue[$($queue:ident,)*] @tail: > $($tail:tt)*) => (
    __op_internal__!(@stack[$($stack,)*] @queue[Eq, $($queue,)*] @tail: > $($tail)*)
);
(@stack[NotEq, $($stack:ident,)*] @queue[$($queue:ident,)*] @tail: > $($tail:tt)*) => (
    __op_internal__!(@stack[$($stack,)*] @queue[NotEq, $($queue,)*] @tail: > $($tail)*)
);
(@stack[LeEq, $($stack:ident,)*] @queue[$($queue:ident,)*] @tail: > $($tail:tt)*) => (
    __op_internal__!(@stack[$($stack,)*] @queue[LeEq, $($queue,)*] @tail: > $($tail)*)
);
(@stack[GrEq, $($stack:ident,)*] @queue[$($queue:ident,)*] @tail: > $($tail:tt)*) => (
    __op_internal__!(@stack[$($stack,)*] @queue[GrEq, $($queue,)*] @tail: > $($tail)*)
);
(@stack[Le, $($stack:ident,)*] @queue[$($queue:ident,)*] @tail: > $($tail:tt)*) => (
    __op_internal__!(@stack[$($stack,)*] @queue[Le, $($queue,)*] @tail: > $($tail)*)
);
(@stack[Gr, $($stack:ident,)*] @queue[$($queue:ident,)*] @tail: > $($tail:tt)*) => (
    __op_internal__!(@stack[$($stack,)*] @queue[Gr, $($queue,)*] @tail: > $($tail)*)
);
(@stack[$($stack:ident,)*] @queue[$($queue:ident,)*] @tail: > $($tail:tt)*) => (
    __op_internal__!(@stack[Gr, $($stack,)*] @queue[$($queue,)*] @tail: $($tail)*)
);
(@stack[$($stack:ident,)*] @queue[$($queue:ident,)*] @tail: ( $($stuff:tt)* ) $($tail:tt)* )
 => (
    __op_internal__!(@stack[LParen, $($stack,)*] @queue[$($queue,)*]
                     @tail: $($stuff)* RParen $($tail)*)
);
(@stack[LParen, $($stack:ident,)*] @queue[$($queue:ident,)*] @tail: RParen $($tail:tt)*) => (
    __op_internal__!(@rp3 @stack[$($stack,)*] @queue[$($queue,)*] @tail: $($tail)*)
);
(@stack[$stack_top:ident, $($stack:ident,)*] @queue[$($queue:ident,)*] @tail: RParen $($tail:tt)*)
 => (
    __op_internal__!(@stack[$($stack,)*] @queue[$stack_top, $($queue,)*] @tail: RParen $($tail)*)
);
(@rp3 @stack[Compare, $($stack:ident,)*] @queue[$($queue:ident,)*] @tail: $($tail:tt)*) => (
    __op_internal__!(@stack[$($stack,)*] @queue[Compare, $($queue,)*] @tail: $($tail)*)
);
(@rp3 @stack[Square, $($stack:ident,)*] @queue[$($queue:ident,)*] @tail: $($tail:tt)*) => (
    __op_internal__!(@stack[$($stack,)*] @queue[Square, $($queue,)*] @tail: $($tail)*)
);
(@rp3 @stack[Sqrt, $($stack:ident,)*] @queue[$($queue:ident,)*] @tail: $($tail:tt)*) => (
    __op_internal__!(@stack[$($stack,)*] @queue[Sqrt, $($queue,)*] @tail: $($tail)*)
);
(@rp3 @stack[AbsVal, $($stack:ident,)*] @queue[$($queue:ident,)*] @tail: $($tail:tt)*) => (
    __op_internal__!(@stack[$($stack,)*] @queue[AbsVal, $($queue,)*] @tail: $($tail)*)
);
(@rp3 @stack[Cube, $($stack:ident,)*] @queue[$($queue:ident,)*] @tail: $($tail:tt)*) => (
    __op_internal__!(@stack[$($stack,)*] @queue[Cube, $($queue,)*] @tail: $($tail)*)
);
(@rp3 @stack[Exp, $($stack:ident,)*] @queue[$($queue:ident,)*] @tail: $($tail:tt)*) => (
    __op_internal__!(@stack[$($stack,)*] @queue[Exp, $($queue,)*] @tail: $($tail)*)
);
(@rp3 @stack[Minimum, $($stack:ident,)*] @queue[$($queue:ident,)*] @tail: $($tail:tt)*) => (
    __op_internal__!(@stack[$($stack,)*] @queue[Minimum, $($queue,)*] @tail: $($tail)*)
);
(@rp3 @stack[Maximum, $($stack:ident,)*] @queue[$($queue:ident,)*] @tail: $($tail:tt)*) => (
    __op_internal__!(@stack[$($stack,)*] @queue[Maximum, $($queue,)*] @tail: $($tail)*)
);
(@rp3 @stack[Log2, $($stack:ident,)*] @queue[$($queue:ident,)*] @tail: $($tail:tt)*) => (
    __op_internal__!(@stack[$($stack,)*] @queue[Log2, $($queue,)*] @tail: $($tail)*)
);
(@rp3 @stack[Gcf, $($stack:ident,)*] @queue[$($queue:ident,)*] @tail: $($tail:tt)*) => (
    __op_internal__!(@stack[$($stack,)*] @queue[Gcf, $($queue,)*] @tail: $($tail)*)
);
(@rp3 @stack[$($stack:ident,)*] @queue[$($queue:ident,)*] @tail: $($tail:tt)*) => (
    __op_internal__!(@stack[$($stack,)*] @queue[$($queue,)*] @tail: $($tail)*)
);
(@stack[$($stack:ident,)*] @queue[$($queue:ident,)*] @tail: $num:ident $($tail:tt)*) => (
    __op_internal__!(@stack[$($stack,)*] @queue[$num, $($queue,)*] @tail: $($tail)*)
);
(@stack[] @queue[$($queue:ident,)*] @tail: ) => (
    __op_internal__!(@reverse[] @input: $($queue,)*)
);
(@stack[$stack_top:ident, $($stack:ident,)*] @queue[$($queue:ident,)*] @tail:) => (
    __op_internal__!(@stack[$($stack,)*] @queue[$stack_top, $($queue,)*] @tail: )
);
(@reverse[$($revved:ident,)*] @input: $head:ident, $($tail:ident,)* ) => (
    __op_internal__!(@reverse[$head, $($revved,)*] @input: $($tail,)*)
);
(@reverse[$($revved:ident,)*] @input: ) => (
    __op_internal__!(@eval @stack[] @input[$($revved,)*])
);
(@eval @stack[$a:ty, $b:ty, $($stack:ty,)*] @input[Prod, $($tail:ident,)*]) => (
    __op_internal__!(@eval @stack[$crate::Prod<$b, $a>, $($stack,)*] @input[$($tail,)*])
);
(@eval @stack[$a:ty, $b:ty, $($stack:ty,)*] @input[Quot, $($tail:ident,)*]) => (
    __op_internal__!(@eval @stack[$crate::Quot<$b, $a>, $($stack,)*] @input[$($tail,)*])
);
(@eval @stack[$a:ty, $b:ty, $($stack:ty,)*] @input[Mod, $($tail:ident,)*]) => (
    __op_internal__!(@eval @stack[$crate::Mod<$b, $a>, $($stack,)*] @input[$($tail,)*])
);
(@eval @stack[$a:ty, $b:ty, $($stack:ty,)*] @input[Sum, $($tail:ident,)*]) => (
    __op_internal__!(@eval @stack[$crate::Sum<$b, $a>, $($stack,)*] @input[$($tail,)*])
);
(@eval @stack[$a:ty, $b:ty, $($stack:ty,)*] @input[Diff, $($tail:ident,)*]) => (
    __op_internal__!(@eval @stack[$crate::Diff<$b, $a>, $($stack,)*] @input[$($tail,)*])
);
(@eval @stack[$a:ty, $b:ty, $($stack:ty,)*] @input[Shleft, $($tail:ident,)*]) => (
    __op_internal__!(@eval @stack[$crate::Shleft<$b, $a>, $($stack,)*] @input[$($tail,)*])
);
(@eval @stack[$a:ty, $b:ty, $($stack:ty,)*] @input[Shright, $($tail:ident,)*]) => (
    __op_internal__!(@eval @stack[$crate::Shright<$b, $a>, $($stack,)*] @input[$($tail,)*])
);
(@eval @stack[$a:ty, $b:ty, $($stack:ty,)*] @input[And, $($tail:ident,)*]) => (
    __op_internal__!(@eval @stack[$crate::And<$b, $a>, $($stack,)*] @input[$($tail,)*])
);
(@eval @stack[$a:ty, $b:ty, $($stack:ty,)*] @input[Xor, $($tail:ident,)*]) => (
    __op_internal__!(@eval @stack[$crate::Xor<$b, $a>, $($stack,)*] @input[$($tail,)*])
);
(@eval @stack[$a:ty, $b:ty, $($stack:ty,)*] @input[Or, $($tail:ident,)*]) => (
    __op_internal__!(@eval @stack[$crate::Or<$b, $a>, $($stack,)*] @input[$($tail,)*])
);
(@eval @stack[$a:ty, $b:ty, $($stack:ty,)*] @input[Eq, $($tail:ident,)*]) => (
    __op_internal__!(@eval @stack[$crate::Eq<$b, $a>, $($stack,)*] @input[$($tail,)*])
);
(@eval @stack[$a:ty, $b:ty, $($stack:ty,)*] @input[NotEq, $($tail:ident,)*]) => (
    __op_internal__!(@eval @stack[$crate::NotEq<$b, $a>, $($stack,)*] @input[$($tail,)*])
);
(@eval @stack[$a:ty, $b:ty, $($stack:ty,)*] @input[LeEq, $($tail:ident,)*]) => (
    __op_internal__!(@eval @stack[$crate::LeEq<$b, $a>, $($stack,)*] @input[$($tail,)*])
);
(@eval @stack[$a:ty, $b:ty, $($stack:ty,)*] @input[GrEq, $($tail:ident,)*]) => (
    __op_internal__!(@eval @stack[$crate::GrEq<$b, $a>, $($stack,)*] @input[$($tail,)*])
);
(@eval @stack[$a:ty, $b:ty, $($stack:ty,)*] @input[Le, $($tail:ident,)*]) => (
    __op_internal__!(@eval @stack[$crate::Le<$b, $a>, $($stack,)*] @input[$($tail,)*])
);
(@eval @stack[$a:ty, $b:ty, $($stack:ty,)*] @input[Gr, $($tail:ident,)*]) => (
    __op_internal__!(@eval @stack[$crate::Gr<$b, $a>, $($stack,)*] @input[$($tail,)*])
);
(@eval @stack[$a:ty, $b:ty, $($stack:ty,)*] @input[Compare, $($tail:ident,)*]) => (
    __op_internal__!(@eval @stack[$crate::Compare<$b, $a>, $($stack,)*] @input[$($tail,)*])
);
(@eval @stack[$a:ty, $b:ty, $($stack:ty,)*] @input[Exp, $($tail:ident,)*]) => (
    __op_internal__!(@eval @stack[$crate::Exp<$b, $a>, $($stack,)*] @input[$($tail,)*])
);
(@eval @stack[$a:ty, $b:ty, $($stack:ty,)*] @input[Minimum, $($tail:ident,)*]) => (
    __op_internal__!(@eval @stack[$crate::Minimum<$b, $a>, $($stack,)*] @input[$($tail,)*])
);
(@eval @stack[$a:ty, $b:ty, $($stack:ty,)*] @input[Maximum, $($tail:ident,)*]) => (
    __op_internal__!(@eval @stack[$crate::Maximum<$b, $a>, $($stack,)*] @input[$($tail,)*])
);
(@eval @stack[$a:ty, $b:ty, $($stack:ty,)*] @input[Gcf, $($tail:ident,)*]) => (
    __op_internal__!(@eval @stack[$crate::Gcf<$b, $a>, $($stack,)*] @input[$($tail,)*])
);
(@eval @stack[$a:ty, $($stack:ty,)*] @input[Square, $($tail:ident,)*]) => (
    __op_internal__!(@eval @stack[$crate::Square<$a>, $($stack,)*] @input[$($tail,)*])
);
(@eval @stack[$a:ty, $($stack:ty,)*] @input[Sqrt, $($tail:ident,)*]) => (
    __op_internal__!(@eval @stack[$crate::Sqrt<$a>, $($stack,)*] @input[$($tail,)*])
);
(@eval @stack[$a:ty, $($stack:ty,)*] @input[AbsVal, $($tail:ident,)*]) => (
    __op_internal__!(@eval @stack[$crate::AbsVal<$a>, $($stack,)*] @input[$($tail,)*])
);
(@eval @stack[$a:ty, $($stack:ty,)*] @input[Cube, $($tail:ident,)*]) => (
    __op_internal__!(@eval @stack[$crate::Cube<$a>, $($stack,)*] @input[$($tail,)*])
);
(@eval @stack[$a:ty, $($stack:ty,)*] @input[Log2, $($tail:ident,)*]) => (
    __op_internal__!(@eval @stack[$crate::Log2<$a>, $($stack,)*] @input[$($tail,)*])
);
(@eval @stack[$($stack:ty,)*] @input[$head:ident, $($tail:ident,)*]) => (
    __op_internal__!(@eval @stack[$head, $($stack,)*] @input[$($tail,)*])
);
(@eval @stack[$stack:ty,] @input[]) => (
    $stack
);
($($tail:tt)* ) => (
    __op_internal__!(@stack[] @queue[] @tail: $($tail)*)
);
}